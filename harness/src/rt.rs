//! Run-time support shared by all generated harnesses: nondeterminism, monitors, executor, gates.
//! Everything here is part of the claim (see DESIGN.md §2.2).
#![allow(static_mut_refs)]
#![allow(dead_code)]
#![allow(unused)]

pub use core::future::Future;
pub use core::pin::Pin;
pub use core::task::{Context, Poll, RawWaker, RawWakerVTable, Waker};
pub use std::boxed::Box;
pub use std::nd;
pub use std::vec::Vec;
/// the prelude's `String` is modelled by the arena string the `format!` model produces (an expansion may name the type of a formatted value)
pub type String = std::mstr::MStr;

// ---------------------------------------------------------------------------------------------
// assertion / witness macros: the same harness body runs under Kani and in the native replay
// ---------------------------------------------------------------------------------------------
#[cfg(kani)]
#[macro_export]
macro_rules! vassert {
    ($c:expr, $m:literal) => { assert!($c, $m) };
}
#[cfg(not(kani))]
#[macro_export]
macro_rules! vassert {
    ($c:expr, $m:literal) => { if !($c) { $crate::rt::native_fail($m); } };
}
#[cfg(kani)]
#[macro_export]
macro_rules! vcover {
    ($c:expr, $m:literal) => { kani::cover!($c, $m) };
}
#[cfg(not(kani))]
#[macro_export]
macro_rules! vcover {
    ($c:expr, $m:literal) => { if $c { $crate::rt::native_cover($m); } };
}

#[cfg(not(kani))]
pub fn native_fail(m: &str) -> ! {
    std::eprintln!("VASSERT-FAILED: {}", m);
    std::process::exit(102);
}
#[cfg(not(kani))]
pub fn native_cover(m: &str) {
    std::eprintln!("COVERED: {}", m);
}

// ---------------------------------------------------------------------------------------------
// symbolic scalars
// ---------------------------------------------------------------------------------------------
#[inline(always)]
pub fn b() -> bool { nd::bool() }
#[inline(always)]
pub fn u() -> u8 { nd::u8() }
/// symbolic value in 0..=max
pub fn upto(max: u8) -> u8 { let n = nd::u8(); nd::assume(n <= max); n }

pub fn mk(ok: bool, v: u8) -> Result<u8, u8> { if ok { Ok(v) } else { Err(v) } }
pub fn mo(ok: bool, v: u8) -> Option<u8> { if ok { Some(v) } else { None } }

/// injective-enough byte mix of a payload with constant coordinates (branch, step)
#[inline(always)]
pub fn tag(b: u8, s: u8, p: u8) -> u8 { p ^ b.wrapping_mul(37).wrapping_add(s.wrapping_mul(101)).wrapping_add(11) }

// ---------------------------------------------------------------------------------------------
// event clock: every event id has a count and first/last stamps of a global sequence counter
// ---------------------------------------------------------------------------------------------
pub const NEV: usize = 160;
pub static mut SEQ: u16 = 0;
pub static mut CNT: [u8; NEV] = [0; NEV];
pub static mut FIRST: [u16; NEV] = [0; NEV];
pub static mut LAST: [u16; NEV] = [0; NEV];
pub static mut ARG: [u8; NEV] = [0; NEV];

pub fn ev(id: usize) {
    unsafe {
        SEQ += 1;
        if CNT[id] == 0 { FIRST[id] = SEQ; }
        LAST[id] = SEQ;
        CNT[id] = CNT[id].wrapping_add(1);
    }
}
/// event carrying a value (the last value is kept, xor of all values in ARGX)
pub static mut ARGX: [u8; NEV] = [0; NEV];
pub fn eva(id: usize, a: u8) { ev(id); unsafe { ARG[id] = a; ARGX[id] ^= a; } }
pub fn cnt(id: usize) -> u8 { unsafe { CNT[id] } }
pub fn first(id: usize) -> u16 { unsafe { FIRST[id] } }
pub fn last(id: usize) -> u16 { unsafe { LAST[id] } }
pub fn arg(id: usize) -> u8 { unsafe { ARG[id] } }
pub fn argx(id: usize) -> u8 { unsafe { ARGX[id] } }
pub fn seq() -> u16 { unsafe { SEQ } }
/// id happened, and all its occurrences lie strictly before every occurrence of `later` (if any)
pub fn before(id: usize, later: usize) -> bool { cnt(later) == 0 || (cnt(id) > 0 && last(id) < first(later)) }

/// Called before each of the programs packed into one harness: resets every monitor (whole-array
/// assignments, no loops) and the thread / task models.
pub fn reset() {
    unsafe {
        SEQ = 0; CREATED = 0; DROPS = 0; TOKSUM = 0; DROPSUM = 0; WOKEN = false; WAKES = 0; ALLOCS = 0; TRACE = 0; NCALLS = 0;
        CNT = [0; NEV]; FIRST = [0; NEV]; LAST = [0; NEV]; ARG = [0; NEV]; ARGX = [0; NEV];
        OPEN = [false; NGATE]; GATE_POLLS = [0; NGATE];
        WAKERS = [None, None, None, None, None, None, None, None];
    }
    std::thread::reset();
    std::mstr::reset();
    tokio::reset();
}

/// resets only the call monitors (between the macro side and the reference side of one program)
pub fn reset_calls() {
    unsafe { BLK = 0; SEQ = 0; TRACE = 0; NCALLS = 0; CNT = [0; NEV]; FIRST = [0; NEV]; LAST = [0; NEV]; ARG = [0; NEV]; ARGX = [0; NEV]; }
}

// ---------------------------------------------------------------------------------------------
// move-only token (no Clone, no Copy; Drop counted)
// ---------------------------------------------------------------------------------------------
pub static mut CREATED: u16 = 0;
pub static mut DROPS: u16 = 0;
pub static mut TOKSUM: u16 = 0;
pub static mut DROPSUM: u16 = 0;
#[derive(Debug, PartialEq, Eq)]
pub struct Tok(pub u8);
impl Tok {
    pub fn new(v: u8) -> Tok { unsafe { CREATED += 1; TOKSUM = TOKSUM.wrapping_add(v as u16 + 1); } Tok(v) }
    /// consume the token, yielding a fresh one (counts as drop of the old, creation of the new)
    pub fn map(self, f: impl FnOnce(u8) -> u8) -> Tok { let v = self.0; drop(self); Tok::new(f(v)) }
    pub fn val(&self) -> u8 { self.0 }
}
impl Drop for Tok { fn drop(&mut self) { unsafe { DROPS += 1; DROPSUM = DROPSUM.wrapping_add(self.0 as u16 + 1); } } }
pub fn tok_balance() -> bool { unsafe { CREATED == DROPS && TOKSUM == DROPSUM } }
pub fn created() -> u16 { unsafe { CREATED } }
pub fn drops() -> u16 { unsafe { DROPS } }

// ---------------------------------------------------------------------------------------------
// allocation counter (used with `#[kani::stub(std::alloc::alloc, crate::rt::counted_alloc)]`)
// ---------------------------------------------------------------------------------------------
pub static mut ALLOCS: usize = 0;
// (the stubs go to the System allocator directly: every std::alloc entry point is itself stubbed)
pub unsafe fn counted_alloc(layout: std::alloc::Layout) -> *mut u8 { ALLOCS += 1; std::alloc::GlobalAlloc::alloc_zeroed(&std::alloc::System, layout) }
pub unsafe fn counted_realloc(ptr: *mut u8, layout: std::alloc::Layout, new_size: usize) -> *mut u8 {
    ALLOCS += 1;
    let new = std::alloc::GlobalAlloc::alloc_zeroed(&std::alloc::System, std::alloc::Layout::from_size_align_unchecked(new_size, layout.align()));
    let n = if layout.size() < new_size { layout.size() } else { new_size };
    core::ptr::copy_nonoverlapping(ptr, new, n);
    new
}
pub fn allocs() -> usize { unsafe { ALLOCS } }

// ---------------------------------------------------------------------------------------------
// executor, root waker, gates
// ---------------------------------------------------------------------------------------------
pub static mut WOKEN: bool = false;
pub static mut WAKES: u16 = 0;
fn rw_clone(_: *const ()) -> RawWaker { RawWaker::new(core::ptr::null(), &VT) }
fn rw_wake(_: *const ()) { unsafe { WOKEN = true; WAKES += 1; } }
fn rw_drop(_: *const ()) {}
static VT: RawWakerVTable = RawWakerVTable::new(rw_clone, rw_wake, rw_wake, rw_drop);
pub fn root_waker() -> Waker { unsafe { Waker::from_raw(RawWaker::new(core::ptr::null(), &VT)) } }
pub fn woken() -> bool { unsafe { WOKEN } }
pub fn clear_woken() { unsafe { WOKEN = false; } }

/// one poll with the root waker
pub fn poll_once<F: Future + Unpin>(f: &mut F) -> Poll<F::Output> {
    let waker = root_waker();
    unsafe { tokio::ROOT = Some(waker.clone()); }
    let mut cx = Context::from_waker(&waker);
    Pin::new(f).poll(&mut cx)
}

/// Poll until ready, at most `max` times. Every `Pending` must be accompanied by a notification of the
/// root waker (all gates of kind `GateN` wake themselves), otherwise a real executor would hang.
/// Returns (output, number of polls, "a pending poll came back without wake-up").
pub fn drive<F: Future + Unpin>(f: &mut F, max: usize) -> (Option<F::Output>, usize, bool) {
    let mut i = 0;
    let mut lost = false;
    while i < max {
        i += 1;
        clear_woken();
        if let Poll::Ready(r) = poll_once(f) { return (Some(r), i, lost); }
        if !woken() { lost = true; }
    }
    (None, i, lost)
}

/// pending for `n` polls, waking itself each time, then ready
pub struct GateN { pub n: u8 }
impl Future for GateN {
    type Output = ();
    fn poll(mut self: Pin<&mut Self>, cx: &mut Context<'_>) -> Poll<()> {
        if self.n == 0 { Poll::Ready(()) } else { self.n -= 1; cx.waker().wake_by_ref(); Poll::Pending }
    }
}

/// a step as a plain hand-written future (no `async` state machine: far cheaper for the solver than `astep`): logs `enter` at its first poll, is
/// pending for `n` polls (waking itself each time), then logs `exit` and yields `v`
pub struct StepF<T> { enter: usize, exit: usize, n: u8, v: Option<T>, started: bool }
impl<T: Unpin> Future for StepF<T> {
    type Output = T;
    fn poll(mut self: Pin<&mut Self>, cx: &mut Context<'_>) -> Poll<T> {
        if !self.started { self.started = true; ev(self.enter); }
        if self.n > 0 { self.n -= 1; cx.waker().wake_by_ref(); return Poll::Pending; }
        ev(self.exit);
        match self.v.take() { Some(v) => Poll::Ready(v), None => panic!("StepF polled after completion") }
    }
}
pub fn sstep<T: Unpin>(enter: usize, exit: usize, n: u8, v: T) -> StepF<T> { StepF { enter, exit, n, v: Some(v), started: false } }

pub const NGATE: usize = 8;
pub static mut OPEN: [bool; NGATE] = [false; NGATE];
pub static mut GATE_POLLS: [u8; NGATE] = [0; NGATE];
pub static mut WAKERS: [Option<Waker>; NGATE] = [None, None, None, None, None, None, None, None];
/// pending until the harness opens gate `id`; stores the waker it was polled with
pub struct GateF { pub id: usize }
impl Future for GateF {
    type Output = ();
    fn poll(self: Pin<&mut Self>, cx: &mut Context<'_>) -> Poll<()> {
        unsafe {
            GATE_POLLS[self.id] = GATE_POLLS[self.id].wrapping_add(1);
            if OPEN[self.id] { Poll::Ready(()) } else { WAKERS[self.id] = Some(cx.waker().clone()); Poll::Pending }
        }
    }
}
/// open gate `id` and call the waker it stored (if it was polled at all)
pub fn open_gate(id: usize) { unsafe { OPEN[id] = true; if let Some(w) = WAKERS[id].take() { w.wake(); } } }
pub fn gate_polls(id: usize) -> u8 { unsafe { GATE_POLLS[id] } }
pub fn gate_has_waker(id: usize) -> bool { unsafe { WAKERS[id].is_some() } }

/// async step helper: logs `enter`, waits for a `GateN`, logs `exit`, yields `v`
pub async fn astep<T>(enter: usize, exit: usize, n: u8, v: T) -> T { ev(enter); GateN { n }.await; ev(exit); v }
/// async step helper for `->` in async macros (the function receives the future of the previous value): logs `enter` at its first poll,
/// awaits the previous value, waits for a `GateN`, logs `exit`, yields `v ^ x`
pub async fn athen<F: core::future::Future<Output = u8>>(enter: usize, exit: usize, n: u8, prev: F, x: u8) -> u8 { ev(enter); let v = prev.await; GateN { n }.await; ev(exit); v ^ x }
/// async step helper over a harness-controlled gate
pub async fn fstep<T>(enter: usize, exit: usize, gate: usize, v: T) -> T { ev(enter); GateF { id: gate }.await; ev(exit); v }

pub fn max2(a: u8, b: u8) -> u8 { if a >= b { a } else { b } }
pub fn max3(a: u8, b: u8, c: u8) -> u8 { max2(max2(a, b), c) }

// thread-model accessors ------------------------------------------------------------------------
pub fn t_spawned() -> usize { unsafe { std::thread::SPAWNED } }
pub fn t_joined() -> usize { unsafe { std::thread::JOINED } }
pub fn t_live() -> usize { unsafe { std::thread::LIVE } }
pub fn t_nops() -> usize { unsafe { std::thread::NOPS } }
pub fn t_op(i: usize) -> u8 { unsafe { std::thread::OPS[i] } }
pub fn t_cur_id() -> usize { unsafe { std::thread::CUR_ID } }
pub fn t_late() -> usize { unsafe { std::thread::LATE } }
pub fn t_early() -> usize { unsafe { std::thread::EARLY } }
pub fn t_faulted() -> usize { unsafe { std::thread::FAULTED } }
/// bit id set: thread id (1-based spawn order) was spawned faulted
pub fn t_fault_mask() -> u32 { unsafe { std::thread::FAULT_MASK } }
pub fn t_enable_faults() { unsafe { std::thread::FAULTS = true; } }
/// number of joins that returned Err (a faulted thread whose failure reached its joiner)
pub fn t_fault_seen() -> usize { unsafe { std::thread::FAULT_SEEN } }
pub fn t_name_is(expect: &[u8]) -> bool { match std::thread::current().name() { Some(n) => n.eq_bytes(expect), None => false } }
pub fn t_unnamed() -> bool { std::thread::current().name().is_none() }
/// fix the thread model's schedule: 1 = every thread runs at spawn time, 2 = every thread runs at join time
pub fn t_schedule(k: u8) { unsafe { std::thread::SCHED = k; } }
/// switch the byte-level `format!` rendering off (thread names become empty strings)
pub fn names_off() { std::mstr::set_render(false); }
pub fn t_set_name(n: &str) { std::thread::set_current_name(Some(std::mstr::MStr::from_str(n))); }
pub fn k_spawned() -> usize { unsafe { tokio::SPAWNED } }
pub fn k_faulted() -> usize { unsafe { tokio::FAULTED } }
pub fn k_fault_mask() -> u32 { unsafe { tokio::FAULT_MASK } }
pub fn k_enable_faults() { unsafe { tokio::FAULTS = true; } }
pub fn k_fault_seen() -> usize { unsafe { tokio::FAULT_SEEN } }
pub fn k_eager() -> usize { unsafe { tokio::EAGER } }

// ---------------------------------------------------------------------------------------------
// observation of arbitrary values as a byte (for call traces) and an order-sensitive trace hash
// ---------------------------------------------------------------------------------------------
pub trait Obs { fn obs(&self) -> u8; }
impl Obs for u8 { fn obs(&self) -> u8 { *self } }
impl Obs for bool { fn obs(&self) -> u8 { *self as u8 } }
impl Obs for usize { fn obs(&self) -> u8 { (*self as u8).wrapping_mul(3) } }
impl Obs for () { fn obs(&self) -> u8 { 0 } }
impl<T: Obs> Obs for Option<T> { fn obs(&self) -> u8 { match self { Some(x) => x.obs().wrapping_add(1), None => 77 } } }
impl<T: Obs, E: Obs> Obs for Result<T, E> { fn obs(&self) -> u8 { match self { Ok(x) => x.obs().wrapping_add(2), Err(e) => e.obs() ^ 0x55 } } }
impl<A: Obs, B: Obs> Obs for (A, B) { fn obs(&self) -> u8 { self.0.obs().wrapping_mul(5) ^ self.1.obs() } }
impl<T: Obs + ?Sized> Obs for &T { fn obs(&self) -> u8 { (**self).obs() } }
impl Obs for Tok { fn obs(&self) -> u8 { self.0 } }
impl<T> Obs for Vec<T> { fn obs(&self) -> u8 { self.len() as u8 } }

pub static mut TRACE: u32 = 0;
pub static mut NCALLS: u16 = 0;
/// logged callback invocation: per-id count / argument xor plus an order-sensitive hash over (id, argument)
pub fn call(id: usize, a: u8) {
    eva(id, a);
    unsafe { TRACE = (TRACE << 5).wrapping_sub(TRACE).wrapping_add(((id as u32) << 8) | a as u32); NCALLS += 1; }
}
pub fn trace() -> u32 { unsafe { TRACE } }
/// order-sensitive hash over the ids of evaluated operand blocks (separate from the callback trace: hoisting moves blocks in front of callbacks)
pub static mut BLK: u32 = 0;
pub fn blk(id: u8) { unsafe { BLK = (BLK << 5).wrapping_sub(BLK).wrapping_add(id as u32); } }
pub fn blk_hash() -> u32 { unsafe { BLK } }
pub fn ncalls() -> u16 { unsafe { NCALLS } }
pub fn reset_trace() { unsafe { TRACE = 0; NCALLS = 0; } }
pub use futures::future::ready;
pub use futures::{FutureExt, TryFutureExt};
/// identity on futures (operand of `->` in async programs)
pub fn fut_id<F: Future>(f: F) -> F { f }
/// generic conversion with two type parameters (turbofish with a comma as an operand)
pub fn conv2<A: Into<B>, B>(a: A) -> B { a.into() }
/// three type parameters
pub fn fold3<A: Into<u8>, B: Into<u8>, C: From<u8>>(a: A, b: B) -> C { C::from(a.into() ^ b.into()) }
pub fn wrapv<T>(v: T) -> Vec<T> { let mut x = Vec::new(); x.push(v); x }
/// current model thread's name == prefix[..plen] ++ suffix
pub fn t_name_is2(prefix: &[u8; 3], plen: usize, suffix: &[u8]) -> bool {
    match std::thread::current().name() {
        Some(n) => {
            if n.len() != plen + suffix.len() { return false; }
            let mut i = 0;
            while i < plen { if n.at(i) != prefix[i] { return false; } i += 1; }
            let mut j = 0;
            while j < suffix.len() { if n.at(plen + j) != suffix[j] { return false; } j += 1; }
            true
        }
        None => false,
    }
}
/// name the root model thread with `plen` of the given bytes
pub fn t_set_name_bytes(b: &[u8; 3], plen: usize) {
    let mut m = std::mstr::MStr::empty();
    let mut i = 0;
    while i < plen { m.push(b[i]); i += 1; }
    std::thread::set_current_name(Some(m));
}

// ---------------------------------------------------------------------------------------------
// C19: allocation stubs and a !Send, !Sync, move-only value
// ---------------------------------------------------------------------------------------------
pub unsafe fn counted_alloc_zeroed(layout: std::alloc::Layout) -> *mut u8 { ALLOCS += 1; std::alloc::GlobalAlloc::alloc_zeroed(&std::alloc::System, layout) }
#[derive(Debug, PartialEq)]
pub struct NoSend(pub u8, pub core::marker::PhantomData<*const ()>);
pub fn nosend(v: u8) -> NoSend { NoSend(v, core::marker::PhantomData) }
/// Send + 'static but NOT Sync (C07: the spawn variants may require exactly Send + 'static of branch values)
#[derive(Debug, PartialEq)]
pub struct SendOnly(pub u8, pub core::marker::PhantomData<core::cell::Cell<()>>);
pub fn sendonly(v: u8) -> SendOnly { SendOnly(v, core::marker::PhantomData) }
/// logged evaluation of a (non-block) operand or initial expression: counts once per evaluation and passes the value on
pub fn lv<T>(id: usize, v: T) -> T { call(id, 0xA5); v }
/// generic logging identities usable as path operands of `->` (C14: which step an operator belongs to)
pub fn tapa<T>(v: T) -> T { ev(140); v }
pub fn tapb<T>(v: T) -> T { ev(141); v }
pub use futures::{StreamExt, TryStreamExt};
pub use futures::stream;
