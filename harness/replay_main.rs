//! Native replay: runs one harness body with the byte vector Kani chose for its `kani::any()` calls.
//! exit 0 = body completed, 102 = assertion of the harness, 101 = panic inside the expansion, 3 = an
//! assumption of the harness does not hold for these bytes, 4 = unknown harness.
use @CRATE@::rt::nd;
fn main() {
    let args: Vec<String> = std::env::args().collect();
    if args.len() < 2 { eprintln!("usage: replay <harness> [b0,b1,...]"); std::process::exit(4); }
    let bytes: Vec<u8> = args.get(2).map(|s| s.split(',').filter(|x| !x.is_empty()).map(|x| x.trim().parse().unwrap()).collect()).unwrap_or_default();
    nd::load(&bytes);
    if !@CRATE@::h::dispatch(&args[1]) { eprintln!("REPLAY: unknown harness {}", args[1]); std::process::exit(4); }
    if unsafe { nd::EXHAUSTED } { eprintln!("REPLAY: byte vector exhausted (path differs from the recorded one)"); }
    println!("REPLAY: completed without failure ({} of {} bytes used)", unsafe { nd::POS }, unsafe { nd::LEN });
}
