//! Native replay: runs one harness body with the byte vector Kani chose for its `kani::any()` calls.
//! exit 0 = body completed, 102 = assertion of the harness, 101 = panic inside the expansion, 3 = an
//! assumption of the harness does not hold for these bytes, 4 = unknown harness.
use @CRATE@::rt::nd;

// Native counterpart of the Kani allocation stubs (C19): every allocation of the process bumps rt::ALLOCS, so a
// counterexample of the allocation claim reproduces natively (rt::reset() zeroes the counter before each program).
struct Counting;
unsafe impl std::alloc::GlobalAlloc for Counting {
    unsafe fn alloc(&self, l: std::alloc::Layout) -> *mut u8 { @CRATE@::rt::ALLOCS += 1; std::alloc::System.alloc(l) }
    unsafe fn alloc_zeroed(&self, l: std::alloc::Layout) -> *mut u8 { @CRATE@::rt::ALLOCS += 1; std::alloc::System.alloc_zeroed(l) }
    unsafe fn realloc(&self, p: *mut u8, l: std::alloc::Layout, n: usize) -> *mut u8 { @CRATE@::rt::ALLOCS += 1; std::alloc::System.realloc(p, l, n) }
    unsafe fn dealloc(&self, p: *mut u8, l: std::alloc::Layout) { std::alloc::System.dealloc(p, l) }
}
#[global_allocator]
static COUNTING: Counting = Counting;
fn main() {
    let args: Vec<String> = std::env::args().collect();
    if args.len() < 2 { eprintln!("usage: replay <harness> [b0,b1,...]"); std::process::exit(4); }
    let bytes: Vec<u8> = args.get(2).map(|s| s.split(',').filter(|x| !x.is_empty()).map(|x| x.trim().parse().unwrap()).collect()).unwrap_or_default();
    nd::load(&bytes);
    if !@CRATE@::h::dispatch(&args[1]) { eprintln!("REPLAY: unknown harness {}", args[1]); std::process::exit(4); }
    if unsafe { nd::EXHAUSTED } { eprintln!("REPLAY: byte vector exhausted (path differs from the recorded one)"); }
    println!("REPLAY: completed without failure ({} of {} bytes used)", unsafe { nd::POS }, unsafe { nd::LEN });
}
