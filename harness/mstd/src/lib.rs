//! `std` shim used by the harness crate as `extern crate mstd as std`.
//!
//! Everything is re-exported from the real `std` except
//!   * `thread`  - a sequential model of `std::thread` whose scheduling choices are symbolic bits,
//!   * `format!` - a byte-level renderer (the real `core::fmt` machinery does not finish under CBMC),
//! plus `nd`, the source of nondeterminism (`kani::any` under Kani, a recorded byte stream natively).
#![allow(static_mut_refs)]
#![allow(clippy::all)]
pub use ::std::*;

/// Nondeterministic values: symbolic under Kani, replayed from a byte vector natively.
pub mod nd {
    #[cfg(kani)]
    pub fn bool() -> bool { kani::any() }
    #[cfg(kani)]
    pub fn u8() -> u8 { kani::any() }
    #[cfg(kani)]
    pub fn assume(c: bool) { kani::assume(c) }

    #[cfg(not(kani))]
    pub static mut BYTES: [u8; 4096] = [0; 4096];
    #[cfg(not(kani))]
    pub static mut LEN: usize = 0;
    #[cfg(not(kani))]
    pub static mut POS: usize = 0;
    /// set when the replay ran out of recorded bytes (=> the replay did not follow the recorded path)
    #[cfg(not(kani))]
    pub static mut EXHAUSTED: bool = false;
    /// set when an assumption is violated natively (=> the byte vector is not a model of the harness)
    #[cfg(not(kani))]
    pub static mut ASSUME_FAILED: bool = false;
    #[cfg(not(kani))]
    pub fn load(b: &[u8]) { unsafe { let mut i = 0; while i < b.len() && i < 4096 { BYTES[i] = b[i]; i += 1; } LEN = i; POS = 0; EXHAUSTED = false; ASSUME_FAILED = false; } }
    #[cfg(not(kani))]
    fn next() -> u8 { unsafe { if POS < LEN { let v = BYTES[POS]; POS += 1; v } else { EXHAUSTED = true; 0 } } }
    #[cfg(not(kani))]
    pub fn bool() -> bool { next() != 0 }
    #[cfg(not(kani))]
    pub fn u8() -> u8 { next() }
    #[cfg(not(kani))]
    pub fn assume(c: bool) { if !c { unsafe { ASSUME_FAILED = true; } ::std::eprintln!("REPLAY: assumption violated"); ::std::process::exit(3); } }
}

/// Byte strings produced by the model `format!` (and used as model thread names).  The bytes live in a global
/// arena; an `MStr` is a one-word handle, so that moving names around costs the solver nothing.
pub mod mstr {
    pub const CAP: usize = 48;
    pub const NSTR: usize = 128;
    // (slot NSTR is never handed out: it is the empty string `<&MStr>::default()` refers to, as `<&str>::default()` does)
    static mut ARENA: [[u8; CAP]; NSTR + 1] = [[0; CAP]; NSTR + 1];
    static mut LEN: [usize; NSTR + 1] = [0; NSTR + 1];
    static EMPTY: MStr = MStr { i: NSTR };
    static mut NEXT: usize = 0;
    /// When false, `format!` yields an empty string.  Harnesses of properties that do not observe thread names
    /// switch rendering off (names influence nothing else); the thread-name harnesses (C08) keep it on.
    static mut RENDER: bool = true;
    pub fn set_render(on: bool) { unsafe { RENDER = on; } }
    /// forget all strings (called between the programs packed into one harness; no handle survives a program)
    pub fn reset() { unsafe { NEXT = 0; RENDER = true; } }
    #[derive(Clone, Copy)]
    pub struct MStr { i: usize }
    impl MStr {
        pub fn empty() -> Self { unsafe { assert!(NEXT < NSTR, "format model: unsupported (string arena full)"); let i = NEXT; NEXT += 1; LEN[i] = 0; MStr { i } } }
        pub fn push(&mut self, c: u8) { unsafe { let n = LEN[self.i]; assert!(n < CAP, "format model: unsupported length"); ARENA[self.i][n] = c; LEN[self.i] = n + 1; } }
        pub fn push_bytes(&mut self, s: &[u8]) { let mut i = 0; while i < s.len() { self.push(s[i]); i += 1; } }
        pub fn push_mstr(&mut self, s: &MStr) { let mut i = 0; let n = s.len(); while i < n { self.push(s.at(i)); i += 1; } }
        pub fn push_usize(&mut self, mut v: usize) {
            let mut d = [0u8; 20]; let mut k = 0;
            if v == 0 { d[0] = b'0'; k = 1; }
            while v > 0 { d[k] = b'0' + (v % 10) as u8; v /= 10; k += 1; }
            while k > 0 { k -= 1; self.push(d[k]); }
        }
        pub fn new() -> Self { Self::empty() }
        pub fn from_str(s: &str) -> Self { let mut m = Self::empty(); m.push_bytes(s.as_bytes()); m }
        pub fn len(&self) -> usize { unsafe { LEN[self.i] } }
        pub fn at(&self, k: usize) -> u8 { unsafe { ARENA[self.i][k] } }
        pub fn eq(&self, o: &MStr) -> bool { if self.len() != o.len() { return false; } let mut i = 0; while i < self.len() { if self.at(i) != o.at(i) { return false; } i += 1; } true }
        pub fn eq_bytes(&self, o: &[u8]) -> bool { if self.len() != o.len() { return false; } let mut i = 0; while i < o.len() { if self.at(i) != o[i] { return false; } i += 1; } true }
    }
    impl From<&str> for MStr { fn from(s: &str) -> MStr { MStr::from_str(s) } }
    impl<'a> Default for &'a MStr { fn default() -> Self { &EMPTY } }
    impl Default for MStr { fn default() -> Self { MStr::empty() } }
    pub enum Arg<'a> { U(usize), S(&'a MStr), Str(&'a str) }
    pub trait ToArg { fn to_arg(&self) -> Arg<'_>; }
    impl ToArg for usize { fn to_arg(&self) -> Arg<'_> { Arg::U(*self) } }
    impl ToArg for MStr { fn to_arg(&self) -> Arg<'_> { Arg::S(self) } }
    impl<'b> ToArg for &'b MStr { fn to_arg(&self) -> Arg<'_> { Arg::S(*self) } }
    impl<'b> ToArg for &'b str { fn to_arg(&self) -> Arg<'_> { Arg::Str(*self) } }
    fn put(out: &mut MStr, a: &Arg<'_>) { match a { Arg::U(v) => out.push_usize(*v), Arg::S(s) => out.push_mstr(s), Arg::Str(s) => out.push_bytes(s.as_bytes()) } }
    fn same(a: &[u8], b: &[u8]) -> bool { if a.len() != b.len() { return false; } let mut i = 0; while i < a.len() { if a[i] != b[i] { return false; } i += 1; } true }
    /// `{}`, `{name}`, `{{`, `}}` only; anything else is reported as "format model: unsupported".
    pub fn render(fmt: &str, pos: &[Arg<'_>], named: &[(&str, Arg<'_>)]) -> MStr {
        let f = fmt.as_bytes(); let mut out = MStr::empty(); let mut i = 0; let mut next = 0;
        if !unsafe { RENDER } { return out; }
        while i < f.len() {
            let c = f[i];
            if c == b'{' {
                if i + 1 < f.len() && f[i + 1] == b'{' { out.push(b'{'); i += 2; continue; }
                let mut j = i + 1; while j < f.len() && f[j] != b'}' { j += 1; }
                assert!(j < f.len(), "format model: unsupported (unterminated placeholder)");
                let name = &f[i + 1..j];
                if name.len() == 0 { assert!(next < pos.len(), "format model: unsupported (missing positional)"); put(&mut out, &pos[next]); next += 1; }
                else {
                    let mut k = 0; let mut found = false;
                    while k < named.len() { if same(named[k].0.as_bytes(), name) { put(&mut out, &named[k].1); found = true; break; } k += 1; }
                    assert!(found, "format model: unsupported placeholder");
                }
                i = j + 1;
            } else if c == b'}' { assert!(i + 1 < f.len() && f[i + 1] == b'}', "format model: unsupported (stray brace)"); out.push(b'}'); i += 2; }
            else { out.push(c); i += 1; }
        }
        out
    }
}

#[macro_export]
macro_rules! format {
    ($fmt:literal) => { $crate::mstr::render($fmt, &[], &[]) };
    ($fmt:literal, $($rest:tt)*) => { $crate::__fmt_args!($fmt; []; []; $($rest)*) };
}
#[macro_export]
macro_rules! __fmt_args {
    ($fmt:literal; [$($p:expr,)*]; [$(($n:ident, $v:expr))*]; ) => {
        $crate::mstr::render($fmt, &[$($crate::mstr::ToArg::to_arg(&$p)),*], &[$((stringify!($n), $crate::mstr::ToArg::to_arg(&$v))),*])
    };
    ($fmt:literal; [$($p:tt)*]; [$($nv:tt)*]; $n:ident = $v:expr) => { $crate::__fmt_args!($fmt; [$($p)*]; [$($nv)* ($n, $v)]; ) };
    ($fmt:literal; [$($p:tt)*]; [$($nv:tt)*]; $n:ident = $v:expr, $($rest:tt)*) => { $crate::__fmt_args!($fmt; [$($p)*]; [$($nv)* ($n, $v)]; $($rest)*) };
    ($fmt:literal; [$($p:tt)*]; [$($nv:tt)*]; $v:expr) => { $crate::__fmt_args!($fmt; [$($p)* $v,]; [$($nv)*]; ) };
    ($fmt:literal; [$($p:tt)*]; [$($nv:tt)*]; $v:expr, $($rest:tt)*) => { $crate::__fmt_args!($fmt; [$($p)* $v,]; [$($nv)*]; $($rest)*) };
}

/// Sequential model of `std::thread`.
///
/// `Builder::spawn(f)` assigns the next thread id, logs `S(id)` and then, on a symbolic bit, either runs
/// `f` right away ("the thread ran before its parent continued") or keeps it in the handle;
/// `JoinHandle::join()` logs `J(id)` and runs `f` if it is still pending ("ran as late as possible").
/// With `FAULTS` enabled a second symbolic bit makes the thread panic: `f` is dropped unrun and
/// `join()` returns `Err`. While `f` runs, `current()` reports the spawned thread.
pub mod thread {
    use crate::mstr::MStr;
    pub const MAXT: usize = 40;
    pub static mut CUR: Option<MStr> = None;           // name of the running (model) thread
    pub static mut CUR_ID: usize = 0;                  // 0 = root thread, k = k-th spawned
    pub static mut SPAWNED: usize = 0;
    pub static mut JOINED: usize = 0;
    pub static mut LIVE: usize = 0;                    // spawned and not yet joined
    pub static mut MAX_LIVE: usize = 0;
    pub static mut LATE: usize = 0;                    // threads whose body ran at join time
    pub static mut EARLY: usize = 0;                   // threads whose body ran at spawn time
    pub static mut FAULTED: usize = 0;
    pub static mut FAULT_SEEN: usize = 0;              // joins that returned Err
    pub static mut FAULT_MASK: u32 = 0;                // bit id: thread id was spawned faulted ("it panicked right away")
    pub static mut PARENT: [usize; MAXT] = [0; MAXT];  // id of the thread that spawned id
    pub static mut LIVE_AT_JOIN: [usize; MAXT] = [0; MAXT]; // LIVE when join(id) was called (incl. id)
    pub static mut SPAWNED_AT_JOIN: [usize; MAXT] = [0; MAXT];
    pub static mut JOINED_BY: [usize; MAXT] = [0; MAXT]; // id of the thread that called join(id) (+1), 0 = never
    pub static mut OPS: [u8; 2 * MAXT] = [0; 2 * MAXT]; // op log: id = spawn(id), 100+id = join(id)
    pub static mut NOPS: usize = 0;
    pub static mut FAULTS: bool = false;
    /// 0 = every thread's placement is a symbolic bit (default); 1 = all early; 2 = all late
    pub static mut SCHED: u8 = 0;
    fn op(c: u8) { unsafe { assert!(NOPS < 2 * MAXT, "thread model: op log full"); OPS[NOPS] = c; NOPS += 1; } }
    pub fn reset() { unsafe { CUR = None; CUR_ID = 0; SPAWNED = 0; JOINED = 0; LIVE = 0; MAX_LIVE = 0; LATE = 0; EARLY = 0; FAULTED = 0; FAULT_SEEN = 0; FAULT_MASK = 0; NOPS = 0; FAULTS = false; SCHED = 0; } }
    pub fn set_current_name(n: Option<MStr>) { unsafe { CUR = n; } }

    #[derive(Clone, Copy, PartialEq, Eq, Debug)]
    pub struct ThreadId(pub usize);
    pub struct Thread { name: Option<MStr>, id: usize }
    impl Thread {
        pub fn name(&self) -> Option<&MStr> { self.name.as_ref() }
        pub fn id(&self) -> ThreadId { ThreadId(self.id) }
    }
    pub fn current() -> Thread { unsafe { Thread { name: CUR, id: CUR_ID } } }

    #[derive(Debug)]
    pub struct Panicked;
    pub struct Builder { name: Option<MStr> }
    pub struct JoinHandle<F, T> { f: Option<F>, r: Option<T>, id: usize, name: Option<MStr>, fault: bool }

    fn run<F: FnOnce() -> T, T>(id: usize, name: Option<MStr>, f: F) -> T {
        unsafe {
            let (sn, si) = (CUR, CUR_ID);
            CUR = name; CUR_ID = id;
            let r = f();
            CUR = sn; CUR_ID = si;
            r
        }
    }
    impl Builder {
        pub fn new() -> Self { Builder { name: None } }
        pub fn name<N: Into<MStr>>(mut self, n: N) -> Self { self.name = Some(n.into()); self }
        pub fn stack_size(self, _s: usize) -> Self { self }
        pub fn spawn<F, T>(self, f: F) -> crate::io::Result<JoinHandle<F, T>>
        where F: FnOnce() -> T + Send + 'static, T: Send + 'static {
            let id = unsafe {
                SPAWNED += 1; assert!(SPAWNED < MAXT, "thread model: too many threads");
                PARENT[SPAWNED] = CUR_ID; LIVE += 1; if LIVE > MAX_LIVE { MAX_LIVE = LIVE; }
                SPAWNED
            };
            op(id as u8);
            let fault = unsafe { FAULTS } && crate::nd::bool();
            if fault { unsafe { FAULTED += 1; FAULT_MASK |= 1u32 << id; } drop(f); return Ok(JoinHandle { f: None, r: None, id, name: self.name, fault: true }); }
            let eager = match unsafe { SCHED } { 1 => true, 2 => false, _ => crate::nd::bool() };
            if eager { unsafe { EARLY += 1; } let r = run(id, self.name, f); Ok(JoinHandle { f: None, r: Some(r), id, name: self.name, fault: false }) }
            else { Ok(JoinHandle { f: Some(f), r: None, id, name: self.name, fault: false }) }
        }
    }
    pub fn spawn<F, T>(f: F) -> JoinHandle<F, T>
    where F: FnOnce() -> T + Send + 'static, T: Send + 'static { Builder::new().spawn(f).unwrap() }

    impl<F: FnOnce() -> T, T> JoinHandle<F, T> {
        pub fn join(mut self) -> Result<T, Panicked> {
            op(100 + self.id as u8);
            unsafe {
                LIVE_AT_JOIN[self.id] = LIVE; SPAWNED_AT_JOIN[self.id] = SPAWNED; JOINED_BY[self.id] = CUR_ID + 1;
                JOINED += 1; LIVE -= 1;
            }
            if self.fault { unsafe { FAULT_SEEN += 1; } return Err(Panicked); }
            if let Some(f) = self.f.take() { unsafe { LATE += 1; } Ok(run(self.id, self.name, f)) } else { Ok(self.r.take().unwrap()) }
        }
        pub fn thread(&self) -> Thread { Thread { name: self.name, id: self.id } }
        pub fn is_finished(&self) -> bool { self.f.is_none() }
    }
}
