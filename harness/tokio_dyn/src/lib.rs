//! Fallback variant of ../tokio: identical behaviour, but `JoinHandle<T>` is generic over the OUTPUT type (the task is
//! a `Pin<Box<dyn Future>>`), so that expansions naming `::tokio::task::JoinHandle<T>` build. Used only for programs that
//! do not build against the default model.
//!
//! Model of `tokio::spawn` (a path dependency literally named `tokio`, so that the `::tokio::spawn`
//! written by the expansion resolves here).
//!
//! The task is owned by its `JoinHandle`. It is polled whenever the handle is polled and, on a symbolic
//! bit, once eagerly at spawn time ("the runtime started the task before the parent continued").
//! With `FAULTS` enabled a second symbolic bit makes the task fail: it is dropped unpolled and the
//! handle yields `Err(JoinError)`. Not modelled: a task making progress while its parent is not polled.
#![allow(static_mut_refs)]
use core::future::Future;
use core::pin::Pin;
use core::task::{Context, Poll, RawWaker, RawWakerVTable, Waker};
use mstd::nd;

pub mod task {
    #[derive(Debug)]
    pub struct JoinError { pub(crate) cancelled: bool }
    impl JoinError {
        pub fn is_cancelled(&self) -> bool { self.cancelled }
        pub fn is_panic(&self) -> bool { !self.cancelled }
    }
    pub use super::JoinHandle;
    pub use super::spawn;
}
pub static mut SPAWNED: usize = 0;
pub static mut FAULTS: bool = false;
pub static mut FAULTED: usize = 0;
pub static mut FAULT_SEEN: usize = 0;
/// bit n: the n-th spawned task (1-based) failed
pub static mut FAULT_MASK: u32 = 0;
pub static mut ABORTS: usize = 0;
pub static mut EAGER: usize = 0;
pub static mut COMPLETED: usize = 0;
pub static mut HANDLE_POLLS: usize = 0;
pub static mut SPAWNED_AT_FIRST_HANDLE_POLL: usize = 0;
/// waker used for the eager poll at spawn time (the executor registers its root waker here)
pub static mut ROOT: Option<Waker> = None;

pub fn reset() { unsafe { SPAWNED = 0; FAULTS = false; FAULTED = 0; FAULT_SEEN = 0; FAULT_MASK = 0; ABORTS = 0; EAGER = 0; COMPLETED = 0; HANDLE_POLLS = 0; SPAWNED_AT_FIRST_HANDLE_POLL = 0; ROOT = None; } }

fn rw_clone(_: *const ()) -> RawWaker { RawWaker::new(core::ptr::null(), &VT) }
fn rw_nop(_: *const ()) {}
static VT: RawWakerVTable = RawWakerVTable::new(rw_clone, rw_nop, rw_nop, rw_nop);

/// Like the real one, the handle is generic over the task's OUTPUT type (so that an expansion may name
/// `::tokio::task::JoinHandle<T>`); the task itself is type-erased.
pub struct JoinHandle<T> { fut: Option<Pin<Box<dyn Future<Output = T> + Send + 'static>>>, out: Option<T>, fault: bool, aborted: bool }
impl<T> Unpin for JoinHandle<T> {}

pub fn spawn<F>(f: F) -> JoinHandle<F::Output>
where F: Future + Send + 'static, F::Output: Send + 'static {
    let mut f: Pin<Box<dyn Future<Output = F::Output> + Send + 'static>> = Box::pin(f);
    unsafe { SPAWNED += 1; }
    if unsafe { FAULTS } && nd::bool() { unsafe { FAULTED += 1; FAULT_MASK |= 1u32 << SPAWNED; } return JoinHandle { fut: None, out: None, fault: true, aborted: false }; }
    let eager = nd::bool();
    if eager {
        unsafe { EAGER += 1; }
        let waker = match unsafe { ROOT.as_ref() } { Some(w) => w.clone(), None => unsafe { Waker::from_raw(RawWaker::new(core::ptr::null(), &VT)) } };
        let mut cx = Context::from_waker(&waker);
        if let Poll::Ready(v) = f.as_mut().poll(&mut cx) { unsafe { COMPLETED += 1; } return JoinHandle { fut: None, out: Some(v), fault: false, aborted: false }; }
    }
    JoinHandle { fut: Some(f), out: None, fault: false, aborted: false }
}

impl<T> JoinHandle<T> {
    pub fn is_finished(&self) -> bool { self.fut.is_none() }
    /// cancel the task: if it has not completed yet its handle yields a cancelled JoinError
    pub fn abort(&self) { unsafe { ABORTS += 1; } }
}

impl<T> Future for JoinHandle<T> {
    type Output = Result<T, task::JoinError>;
    fn poll(mut self: Pin<&mut Self>, cx: &mut Context<'_>) -> Poll<Self::Output> {
        unsafe { if HANDLE_POLLS == 0 { SPAWNED_AT_FIRST_HANDLE_POLL = SPAWNED; } HANDLE_POLLS += 1; }
        if self.fault { unsafe { FAULT_SEEN += 1; } return Poll::Ready(Err(task::JoinError { cancelled: false })); }
        if let Some(v) = self.out.take() { return Poll::Ready(Ok(v)); }
        let this = &mut *self;
        match this.fut.as_mut() {
            Some(f) => match f.as_mut().poll(cx) {
                Poll::Ready(v) => { this.fut = None; unsafe { COMPLETED += 1; } Poll::Ready(Ok(v)) }
                Poll::Pending => Poll::Pending,
            },
            None => panic!("tokio model: JoinHandle polled after completion"),
        }
    }
}
