#[cfg(kani)]
mod proofs {
    use join_impl::Config;
    use join_impl::join::join_output::JoinOutput;
    use join_impl::action_expr_chain::ActionExprChain;
    use join_impl::chain::Chain;
    use join_impl::chain::expr::{ActionExpr, ProcessExpr};
    use join_impl::chain::group::{ActionGroup, ApplicationType, Combinator, ExprGroup, MoveType};

    fn member(deferred: bool) -> ExprGroup<ActionExpr> {
        ExprGroup::new(
            ActionExpr::Process(ProcessExpr::Flatten),
            ActionGroup::new(Combinator::Flatten, if deferred { ApplicationType::Deferred } else { ApplicationType::Instant }, MoveType::None))
    }
    fn chain(len: usize, d: [bool; 3]) -> (ActionExprChain, usize) {
        let mut c = ActionExprChain::new(None, &[]);
        let mut depth = 1; let mut i = 0;
        while i < len { c.append_member(member(d[i])); if d[i] { depth += 1; } i += 1; }
        (c, depth)
    }

    #[kani::proof]
    #[kani::unwind(5)]
    fn gen_depths() {
        let l0: usize = 2; let l1: usize = 2;
        kani::assume(l0 <= 3 && l1 <= 3);
        let d0 = [kani::any(), kani::any(), kani::any()]; let d1 = [kani::any(), kani::any(), kani::any()];
        let (c0, dep0) = chain(l0, d0); let (c1, dep1) = chain(l1, d1);
        let branches = [c0, c1];
        let out = JoinOutput::new(&branches, None, None, None, None, None, Config { is_async: false, is_try: kani::any(), is_spawn: kani::any() });
        let out = match out { Ok(o) => o, Err(_) => { assert!(false); return; } };
        let s: usize = kani::any(); kani::assume(s < 5);
        let exp_active = (dep0 > s) as usize + (dep1 > s) as usize;
        assert!(out.active_step_branch_count(s) == exp_active);
        assert!(out.is_branch_active_in_step(s, 0usize) == (dep0 > s));
        assert!(out.is_branch_active_in_step(s, 1usize) == (dep1 > s));
        core::mem::forget(out); core::mem::forget(branches);
    }
}
