use join_impl::{generate_join, Config, JoinInputDefault};
use std::io::Read;
fn main() {
    let args: Vec<String> = std::env::args().collect();
    let kind = &args[1];
    let mut src = String::new();
    std::io::stdin().read_to_string(&mut src).unwrap();
    let ts: proc_macro2::TokenStream = src.parse().unwrap();
    let r = std::panic::catch_unwind(|| {
        match syn::parse2::<JoinInputDefault>(ts) {
            Ok(j) => {
                let cfg = Config { is_async: kind.contains("async"), is_try: kind.contains("try"), is_spawn: kind.contains("spawn") };
                println!("{}", generate_join(&j, cfg));
            }
            Err(e) => println!("SYN ERROR: {}", e),
        }
    });
    if let Err(e) = r { println!("PANIC: {:?}", e.downcast_ref::<String>().map(|s| s.as_str()).or(e.downcast_ref::<&str>().copied())); }
}
