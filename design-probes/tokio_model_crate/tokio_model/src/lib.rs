//! Cheap model of tokio::spawn: the task is owned by its JoinHandle; it is polled when the
//! handle is polled, plus (symbolically) once eagerly at spawn time.
use core::future::Future;
use core::pin::Pin;
use core::task::{Context, Poll, RawWaker, RawWakerVTable, Waker};

pub mod task { #[derive(Debug)] pub struct JoinError; }
pub static mut SPAWNED: usize = 0;
pub static mut FAULTS: bool = false;
pub static mut FAULTED: usize = 0;
pub static mut FIRST_POLLED: usize = 0;
pub static mut SPAWNED_AT_FIRST_HANDLE_POLL: usize = 0;

fn rw_clone(_: *const ()) -> RawWaker { RawWaker::new(core::ptr::null(), &VT) }
fn rw_nop(_: *const ()) { }
static VT: RawWakerVTable = RawWakerVTable::new(rw_clone, rw_nop, rw_nop, rw_nop);

pub struct JoinHandle<F: Future> { fut: Option<Pin<Box<F>>>, out: Option<F::Output>, fault: bool }
impl<F: Future> Unpin for JoinHandle<F> {}

pub fn spawn<F>(f: F) -> JoinHandle<F>
where F: Future + Send + 'static, F::Output: Send + 'static {
    let mut f = Box::pin(f);
    unsafe { SPAWNED += 1; }
    if unsafe { FAULTS } && kani::any::<bool>() { unsafe { FAULTED += 1; } return JoinHandle { fut: None, out: None, fault: true }; }
    let eager: bool = kani::any();
    if eager {
        let waker = unsafe { Waker::from_raw(RawWaker::new(core::ptr::null(), &VT)) };
        let mut cx = Context::from_waker(&waker);
        if let Poll::Ready(v) = f.as_mut().poll(&mut cx) { return JoinHandle { fut: None, out: Some(v), fault: false }; }
    }
    JoinHandle { fut: Some(f), out: None, fault: false }
}

impl<F: Future> Future for JoinHandle<F> {
    type Output = Result<F::Output, task::JoinError>;
    fn poll(mut self: Pin<&mut Self>, cx: &mut Context<'_>) -> Poll<Self::Output> {
        unsafe { if FIRST_POLLED == 0 { SPAWNED_AT_FIRST_HANDLE_POLL = SPAWNED; } FIRST_POLLED += 1; }
        if self.fault { return Poll::Ready(Err(task::JoinError)); }
        if let Some(v) = self.out.take() { return Poll::Ready(Ok(v)); }
        let this = &mut *self;
        match this.fut.as_mut() {
            Some(f) => match f.as_mut().poll(cx) { Poll::Ready(v) => { this.fut = None; Poll::Ready(Ok(v)) } Poll::Pending => Poll::Pending },
            None => panic!("JoinHandle polled after completion"),
        }
    }
}
