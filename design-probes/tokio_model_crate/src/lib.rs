#![allow(unused, static_mut_refs)]
#[cfg(kani)]
mod proofs {
    use join::*;
    use core::future::Future;
    use core::pin::Pin;
    use core::task::{Context, Poll, RawWaker, RawWakerVTable, Waker};
    use fx::future::ready;

    fn rw_clone(_: *const ()) -> RawWaker { RawWaker::new(core::ptr::null(), &VT) }
    fn rw_wake(_: *const ()) { }
    fn rw_drop(_: *const ()) {}
    static VT: RawWakerVTable = RawWakerVTable::new(rw_clone, rw_wake, rw_wake, rw_drop);
    struct Gate { n: u8 }
    impl Future for Gate { type Output = (); fn poll(mut self: Pin<&mut Self>, _cx: &mut Context<'_>) -> Poll<()> { if self.n == 0 { Poll::Ready(()) } else { self.n -= 1; Poll::Pending } } }
    async fn gstep(n: u8, v: u8) -> u8 { Gate { n }.await; v }
    fn g() -> u8 { let n: u8 = kani::any(); kani::assume(n <= 1); n }
    fn drive<F: Future + Unpin>(f: &mut F, max: usize) -> (Option<F::Output>, usize) {
        let waker = unsafe { Waker::from_raw(RawWaker::new(core::ptr::null(), &VT)) };
        let mut cx = Context::from_waker(&waker);
        let mut i = 0;
        while i < max { i += 1; if let Poll::Ready(r) = Pin::new(&mut *f).poll(&mut cx) { return (Some(r), i); } }
        (None, i)
    }

    #[kani::proof]
    #[kani::unwind(4)]
    fn t_path_and_fault() {
        unsafe { tokio::FAULTS = true; }
        let (a, c) = (kani::any::<u8>(), kani::any::<u8>()); let (n0, n1) = (g(), g());
        let mut fut = join_async_spawn! { futures_crate_path(::fx) gstep(n0, a), gstep(n1, c) |> |v| v ^ 1 };
        assert!(unsafe { tokio::SPAWNED } == 0);
        let (r, polls) = drive(&mut fut, 3);
        assert!(unsafe { tokio::FAULTED } == 0, "completed despite fault");
        assert!(r.unwrap() == (a, c ^ 1));
        assert!(unsafe { tokio::SPAWNED == 2 && tokio::SPAWNED_AT_FIRST_HANDLE_POLL == 2 });
    }
}
