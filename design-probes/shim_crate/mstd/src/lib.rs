//! std shim: everything from std except `thread` (sequential model) and `format!` (cheap model).
#![allow(static_mut_refs)]
pub use ::std::*;

pub mod nd {
    #[cfg(kani)] pub fn bool() -> bool { kani::any() }
    #[cfg(kani)] pub fn u8() -> u8 { kani::any() }
    #[cfg(kani)] pub fn assume(c: bool) { kani::assume(c) }
    #[cfg(not(kani))] pub fn bool() -> bool { false }
    #[cfg(not(kani))] pub fn u8() -> u8 { 0 }
    #[cfg(not(kani))] pub fn assume(_c: bool) { }
}

pub mod mstr {
    pub const CAP: usize = 40;
    #[derive(Clone, Copy)]
    pub struct MStr { pub b: [u8; CAP], pub n: usize }
    impl MStr {
        pub const fn empty() -> Self { MStr { b: [0; CAP], n: 0 } }
        pub fn push(&mut self, c: u8) { assert!(self.n < CAP); self.b[self.n] = c; self.n += 1; }
        pub fn push_bytes(&mut self, s: &[u8]) { let mut i = 0; while i < s.len() { self.push(s[i]); i += 1; } }
        pub fn push_mstr(&mut self, s: &MStr) { let mut i = 0; while i < s.n { self.push(s.b[i]); i += 1; } }
        pub fn push_usize(&mut self, mut v: usize) {
            let mut d = [0u8; 20]; let mut k = 0;
            if v == 0 { d[0] = b'0'; k = 1; }
            while v > 0 { d[k] = b'0' + (v % 10) as u8; v /= 10; k += 1; }
            while k > 0 { k -= 1; self.push(d[k]); }
        }
        pub fn from_str(s: &str) -> Self { let mut m = Self::empty(); m.push_bytes(s.as_bytes()); m }
        pub fn eq(&self, o: &MStr) -> bool { if self.n != o.n { return false; } let mut i = 0; while i < self.n { if self.b[i] != o.b[i] { return false; } i += 1; } true }
    }
    pub enum Arg<'a> { U(usize), S(&'a MStr), Str(&'a str) }
    pub trait ToArg { fn to_arg(&self) -> Arg<'_>; }
    impl ToArg for usize { fn to_arg(&self) -> Arg<'_> { Arg::U(*self) } }
    impl ToArg for MStr { fn to_arg(&self) -> Arg<'_> { Arg::S(self) } }
    impl<'b> ToArg for &'b MStr { fn to_arg(&self) -> Arg<'_> { Arg::S(*self) } }
    impl<'b> ToArg for &'b str { fn to_arg(&self) -> Arg<'_> { Arg::Str(*self) } }
    fn put(out: &mut MStr, a: &Arg<'_>) { match a { Arg::U(v) => out.push_usize(*v), Arg::S(s) => out.push_mstr(s), Arg::Str(s) => out.push_bytes(s.as_bytes()) } }
    pub fn render(fmt: &str, pos: &[Arg<'_>], named: &[(&str, Arg<'_>)]) -> MStr {
        let f = fmt.as_bytes(); let mut out = MStr::empty(); let mut i = 0; let mut next = 0;
        while i < f.len() {
            let c = f[i];
            if c == b'{' {
                if i + 1 < f.len() && f[i+1] == b'{' { out.push(b'{'); i += 2; continue; }
                let mut j = i + 1; while j < f.len() && f[j] != b'}' { j += 1; }
                assert!(j < f.len(), "format model: unterminated placeholder");
                let name = &f[i+1..j];
                if name.len() == 0 { assert!(next < pos.len(), "format model: missing positional"); put(&mut out, &pos[next]); next += 1; }
                else {
                    let mut k = 0; let mut found = false;
                    while k < named.len() { if named[k].0.as_bytes() == name { put(&mut out, &named[k].1); found = true; break; } k += 1; }
                    assert!(found, "format model: unsupported placeholder");
                }
                i = j + 1;
            } else if c == b'}' { assert!(i + 1 < f.len() && f[i+1] == b'}', "format model: stray brace"); out.push(b'}'); i += 2; }
            else { out.push(c); i += 1; }
        }
        out
    }
}

#[macro_export]
macro_rules! format {
    ($fmt:literal) => { $crate::mstr::render($fmt, &[], &[]) };
    ($fmt:literal, $($rest:tt)*) => { $crate::__fmt_args!($fmt; []; []; $($rest)*) };
}
#[macro_export]
macro_rules! __fmt_args {
    ($fmt:literal; [$($p:expr,)*]; [$(($n:ident, $v:expr))*]; ) => {
        $crate::mstr::render($fmt, &[$($crate::mstr::ToArg::to_arg(&$p)),*], &[$((stringify!($n), $crate::mstr::ToArg::to_arg(&$v))),*])
    };
    ($fmt:literal; [$($p:tt)*]; [$($nv:tt)*]; $n:ident = $v:expr) => { $crate::__fmt_args!($fmt; [$($p)*]; [$($nv)* ($n, $v)]; ) };
    ($fmt:literal; [$($p:tt)*]; [$($nv:tt)*]; $n:ident = $v:expr, $($rest:tt)*) => { $crate::__fmt_args!($fmt; [$($p)*]; [$($nv)* ($n, $v)]; $($rest)*) };
    ($fmt:literal; [$($p:tt)*]; [$($nv:tt)*]; $v:expr) => { $crate::__fmt_args!($fmt; [$($p)* $v,]; [$($nv)*]; ) };
    ($fmt:literal; [$($p:tt)*]; [$($nv:tt)*]; $v:expr, $($rest:tt)*) => { $crate::__fmt_args!($fmt; [$($p)* $v,]; [$($nv)*]; $($rest)*) };
}

pub mod thread {
    use crate::mstr::MStr;
    pub const MAXT: usize = 8;
    pub static mut CUR: Option<MStr> = None;           // name of the running (model) thread
    pub static mut CUR_ID: usize = 0;                  // 0 = root thread, k = k-th spawned
    pub static mut SPAWNED: usize = 0;
    pub static mut JOINED: usize = 0;
    pub static mut NAMES: [Option<MStr>; MAXT] = [None; MAXT];
    pub static mut OPS: [u8; 2 * MAXT] = [0; 2 * MAXT]; // op log: 1+id = spawn(id), 101+id = join(id)
    pub static mut NOPS: usize = 0;
    pub static mut FAULTS: bool = false;
    fn op(c: u8) { unsafe { assert!(NOPS < 2 * MAXT); OPS[NOPS] = c; NOPS += 1; } }

    pub struct Thread { name: Option<MStr>, id: usize }
    impl Thread { pub fn name(&self) -> Option<&MStr> { self.name.as_ref() } pub fn id(&self) -> usize { self.id } }
    pub fn current() -> Thread { unsafe { Thread { name: CUR, id: CUR_ID } } }

    #[derive(Debug)] pub struct Panicked;
    pub struct Builder { name: Option<MStr> }
    pub struct JoinHandle<F, T> { f: Option<F>, r: Option<T>, id: usize, name: Option<MStr>, fault: bool }

    fn run<F: FnOnce() -> T, T>(id: usize, name: Option<MStr>, f: F) -> T {
        unsafe {
            let (sn, si) = (CUR, CUR_ID);
            CUR = name; CUR_ID = id;
            let r = f();
            CUR = sn; CUR_ID = si;
            r
        }
    }
    impl Builder {
        pub fn new() -> Self { Builder { name: None } }
        pub fn name(mut self, n: MStr) -> Self { self.name = Some(n); self }
        pub fn spawn<F, T>(self, f: F) -> crate::io::Result<JoinHandle<F, T>>
        where F: FnOnce() -> T + Send + 'static, T: Send + 'static {
            let id = unsafe { SPAWNED += 1; assert!(SPAWNED < MAXT); NAMES[SPAWNED] = self.name; SPAWNED };
            op(id as u8);
            let fault = unsafe { FAULTS } && crate::nd::bool();
            if fault { return Ok(JoinHandle { f: None, r: None, id, name: self.name, fault: true }); }
            let eager = crate::nd::bool();
            if eager { let r = run(id, self.name, f); Ok(JoinHandle { f: None, r: Some(r), id, name: self.name, fault: false }) }
            else { Ok(JoinHandle { f: Some(f), r: None, id, name: self.name, fault: false }) }
        }
    }
    impl<F: FnOnce() -> T, T> JoinHandle<F, T> {
        pub fn join(mut self) -> Result<T, Panicked> {
            op(100 + self.id as u8);
            unsafe { JOINED += 1; }
            if self.fault { return Err(Panicked); }
            if let Some(f) = self.f.take() { Ok(run(self.id, self.name, f)) } else { Ok(self.r.take().unwrap()) }
        }
    }
}
