#![no_std]
#![allow(static_mut_refs)]
#![allow(unused)]
#[macro_use]
extern crate mstd as std;

#[cfg(kani)]
mod proofs {
    use std::prelude::v1::{Option, Option::*, Result, Result::*, Box, Vec, String, Fn, FnMut, FnOnce, Send, Sync, Sized, Drop, Clone, Copy, Into, From, Iterator, IntoIterator, PartialEq, Eq};
    use join::*;
    use std::thread as mt;

    fn mk(ok: bool, v: u8) -> Result<u8, u8> { if ok { Ok(v) } else { Err(v) } }
    fn mo(ok: bool, v: u8) -> Option<u8> { if ok { Some(v) } else { None } }
    fn b() -> bool { kani::any() }
    fn u() -> u8 { kani::any() }

    static mut LOG: [u8; 24] = [0; 24];
    static mut LN: usize = 0;
    fn ev(e: u8) { unsafe { assert!(LN < 24); LOG[LN] = e; LN += 1; } }
    fn logged(i: usize) -> u8 { unsafe { LOG[i] } }

    // ---- C02: wrappers on &T closures and iterator wrappers
    #[kani::proof]
    #[kani::unwind(6)]
    fn c02_iter_wrappers() {
        let a = [mo(b(), u()), mo(b(), u()), mo(b(), u())]; let k = u();
        let m = join! {
            a.into_iter() ?> >>> ..is_some() <<< |> >>> |> |v| v ^ k <<< ^^> ^@ 0u8, |x, y| x ^ y,
            a.into_iter() ?|> >>> ?> |v| *v > k <<< ..count(),
            a.into_iter() ?@ >>> ..is_none(),
            a.into_iter() ?|>@ >>> |> |v| v ^ 1,
            a.into_iter() ?&!> >>> ..is_some() <<< -> |(x, y): (Vec<Option<u8>>, Vec<Option<u8>>)| (x.len(), y.len()),
        };
        let r = (
            a.into_iter().filter(|v| v.is_some()).map(|v| v.map(|v| v ^ k)).flatten().fold(0u8, |x, y| x ^ y),
            a.into_iter().filter_map(|v| v.filter(|v| *v > k)).count(),
            a.into_iter().find(|v| v.is_none()),
            a.into_iter().find_map(|v| v.map(|v| v ^ 1)),
            (|(x, y): (Vec<Option<u8>>, Vec<Option<u8>>)| (x.len(), y.len()))(a.into_iter().partition(|v| v.is_some())),
        );
        assert!(m == r);
    }

    #[kani::proof]
    fn c02_nested_result() {
        let x: Result<Result<Option<u8>, u8>, u8> = if b() { Ok(if b() { Ok(mo(b(), u())) } else { Err(u()) }) } else { Err(u()) };
        let k = u();
        let m = try_join! {
            x => >>> => >>> |> |v| v ^ k ..ok_or(4u8) <<< |> |v| Ok::<u8, u8>(v ^ 5) <<< !> >>> -> |e: u8| e ^ 1 <<< <= >>> -> |e: u8| if e > k { Ok(Ok(e)) } else { Err(e) }
        };
        let r = x.and_then(|v| v.and_then(|v| v.map(|v| v ^ k).ok_or(4u8)).map(|v| Ok::<u8, u8>(v ^ 5))).map_err(|e| (|e: u8| e ^ 1)(e)).or_else(|e| (|e: u8| if e > k { Ok(Ok(e)) } else { Err(e) })(e));
        assert!(m == r);
    }

    // ---- C11/C12/C03/C06: captures, let names, barrier in thread model
    #[kani::proof]
    fn c11_c12_spawn() {
        let (o0, o1, o2, o3) = (b(), b(), b(), b());
        let (p0, p1, p2, p3) = (u(), u(), u(), u());
        let r = try_join_spawn! {
            let mut x = mk(o0, p0) |> { ev(1); |v: u8| { ev(10); v } } ~=> { ev(3); let snap = *y.as_ref().unwrap(); move |v: u8| { ev(12); mk(o2, v ^ snap) } },
            let y = { ev(2); mk(o1, p1) } ~|> { ev(4); let sx = *x.as_ref().unwrap(); move |v: u8| { ev(13); v ^ sx } } ~-> { ev(5); let sx = x.as_ref().ok().copied(); move |v: Result<u8, u8>| { ev(14); let _ = sx; mk(o3, p3) } },
            map => |a: u8, c: u8| (a, c)
        };
        let e = if !o0 { Err(p0) } else if !o1 { Err(p1) } else if !o2 { Err(p0 ^ p1) } else if !o3 { Err(p3) } else { Ok((p0 ^ p1, p3)) };
        assert!(r == e);
        // captures of step 0 come first in (branch, position) order, before callbacks of step 0
        assert!(logged(0) == 1 && logged(1) == 2);
        if o0 && o1 {
            // step-1 captures (3 then 4) after every step-0 callback, before every step-1 callback
            let mut i = 0; let mut seen3 = 99; let mut seen4 = 99; let mut first_cb1 = 99; let mut last_cb0 = 0;
            while i < 24 { let e = logged(i); if e == 3 { seen3 = i; } if e == 4 { seen4 = i; } if (e == 12 || e == 13) && first_cb1 == 99 { first_cb1 = i; } if e == 10 { last_cb0 = i; } i += 1; }
            assert!(seen3 < seen4 && seen4 < first_cb1 && last_cb0 < seen3);
        }
        kani::cover!(o0 && o1 && o2 && o3);
    }

    // ---- C13/C10: handler call counts
    static mut HC: u8 = 0;
    #[kani::proof]
    fn c13_handlers() {
        let (o0, o1, o2) = (b(), b(), b()); let (p0, p1, p2) = (u(), u(), u());
        let r = try_join! { and_then => |a: u8, c: u8, d: u8| { unsafe { HC += 1; } mo(a > c, d) }, mo(o0, p0), mo(o1, p1) ~|> |v| v ^ 1, mo(o2, p2) };
        assert!(unsafe { HC } == (o0 && o1 && o2) as u8);
        assert!(r == if o0 && o1 && o2 { mo(p0 > (p1 ^ 1), p2) } else { None });
        let r2 = join! { mo(o0, p0), then => |a: Option<u8>, c: Option<u8>| { unsafe { HC += 10; } (c, a) }, mo(o1, p1) };
        assert!(r2 == (mo(o1, p1), mo(o0, p0)));
        assert!(unsafe { HC } >= 10 && unsafe { HC } < 20);
    }

    // ---- C07: alias agreement incl. try-ness on single-branch two-step programs
    #[kani::proof]
    fn c07_alias() {
        let (o0, p0) = (b(), u());
        unsafe { LN = 0; }
        let a = spawn! { mo(o0, p0) ~-> |v: Option<u8>| { ev(7); v } };
        let n1 = unsafe { LN };
        let c = join_spawn! { mo(o0, p0) ~-> |v: Option<u8>| { ev(7); v } };
        assert!(a == c && unsafe { LN } == 2 * n1 && n1 == 1);
        unsafe { LN = 0; }
        let a = try_spawn! { mo(o0, p0) ~-> |v: Option<u8>| { ev(7); v } };
        let n1 = unsafe { LN };
        let c = try_join_spawn! { mo(o0, p0) ~-> |v: Option<u8>| { ev(7); v } };
        assert!(a == c && unsafe { LN } == 2 * n1 && n1 == o0 as usize);
        let s0 = unsafe { mt::SPAWNED };
        let a = spawn! { p0, o0 };
        assert!(unsafe { mt::SPAWNED } == s0 + 2 && a == (p0, o0));
    }

    // ---- C19: borrows, move-only, allocation counter
    struct Tok(u8);
    #[kani::proof]
    #[kani::stub(std::alloc::alloc, crate::counted_alloc)]
    fn c19_borrow_noalloc() {
        let mut x = u(); let y = Tok(u()); let k = u(); let y0 = y.0; let x0 = x;
        let r = join! { (&mut x) -> |r: &mut u8| { *r ^= k; *r }, y -> |t: Tok| t, (&k) -> |r: &u8| *r };
        assert!(r.0 == x0 ^ k && (r.1).0 == y0 && r.2 == k && x == x0 ^ k);
        assert!(unsafe { crate::ALLOCS } == 0);
    }
}
pub static mut ALLOCS: usize = 0;
pub unsafe fn counted_alloc(layout: std::alloc::Layout) -> *mut u8 { ALLOCS += 1; std::alloc::alloc_zeroed(layout) }
