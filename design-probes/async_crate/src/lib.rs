#![allow(unused, static_mut_refs)]
#[cfg(kani)]
mod proofs {
    use join::*;
    use core::future::Future;
    use core::pin::Pin;
    use core::task::{Context, Poll, RawWaker, RawWakerVTable, Waker};
    use futures::future::ready;

    fn rw_clone(_: *const ()) -> RawWaker { RawWaker::new(core::ptr::null(), &VT) }
    fn rw_wake(_: *const ()) { }
    fn rw_drop(_: *const ()) {}
    static VT: RawWakerVTable = RawWakerVTable::new(rw_clone, rw_wake, rw_wake, rw_drop);
    fn b() -> bool { kani::any() }
    fn u() -> u8 { kani::any() }
    fn g() -> u8 { let n: u8 = kani::any(); kani::assume(n <= 2); n }

    static mut EV: u8 = 0;
    static mut DONE: [bool; 4] = [false; 4];
    struct Gate { n: u8 }
    impl Future for Gate { type Output = (); fn poll(mut self: Pin<&mut Self>, _cx: &mut Context<'_>) -> Poll<()> { if self.n == 0 { Poll::Ready(()) } else { self.n -= 1; Poll::Pending } } }
    async fn step(id: usize, n: u8, ok: bool, v: u8) -> Result<u8, u8> { unsafe { EV += 1; } Gate { n }.await; unsafe { DONE[id] = true; } if ok { Ok(v) } else { Err(v) } }

    fn drive<F: Future + Unpin>(f: &mut F, max: usize) -> (Option<F::Output>, usize) {
        let waker = unsafe { Waker::from_raw(RawWaker::new(core::ptr::null(), &VT)) };
        let mut cx = Context::from_waker(&waker);
        let mut i = 0;
        while i < max { i += 1; if let Poll::Ready(r) = Pin::new(&mut *f).poll(&mut cx) { return (Some(r), i); } }
        (None, i)
    }

    #[kani::proof]
    #[kani::unwind(5)]
    fn a_c05_c09_one_step() {
        let (o0, o1, o2) = (b(), b(), b()); let (p0, p1, p2) = (u(), u(), u()); let (n0, n1, n2) = (g(), g(), g());
        let mut fut = try_join_async! { step(0, n0, o0, p0), step(1, n1, o1, p1), step(2, n2, o2, p2) };
        assert!(unsafe { EV } == 0);                                  // lazy
        let (r, polls) = drive(&mut fut, 4);
        let r = r.unwrap();
        let mx = if n0 >= n1 && n0 >= n2 { n0 } else if n1 >= n2 { n1 } else { n2 };
        if o0 && o1 && o2 { assert!(r == Ok((p0, p1, p2)) && polls == 1 + mx as usize); }
        else {
            assert!((!o0 && r == Err(p0)) || (!o1 && r == Err(p1)) || (!o2 && r == Err(p2)));
            // a single failing branch is reported exactly
            if !o0 && o1 && o2 { assert!(r == Err(p0) && polls == 1 + n0 as usize); }
        }
        kani::cover!(!o1 && !o2 && o0 && n2 < n1 && r == Err(p2), "later branch fails first in time");
    }

    static mut HDONE: bool = false;
    #[kani::proof]
    #[kani::unwind(5)]
    fn a_c13_async_handlers() {
        let (o0, o1) = (b(), b()); let (p0, p1) = (u(), u()); let (n0, nh) = (g(), g());
        let mut fut = try_join_async! { step(0, n0, o0, p0), ready(if o1 { Ok(p1) } else { Err(p1) }), and_then => |a: u8, c: u8| async move { Gate { n: nh }.await; unsafe { HDONE = true; } if a > c { Ok(a ^ c) } else { Err(c) } } };
        let (r, _polls) = drive(&mut fut, 6);
        let r = r.unwrap();
        if o0 && o1 { assert!(unsafe { HDONE } && r == if p0 > p1 { Ok(p0 ^ p1) } else { Err(p1) }); } else { assert!(!unsafe { HDONE } && r.is_err()); }
        let mut f2 = join_async! { ready(p0), then => |a: u8, c: u8| async move { Gate { n: nh }.await; (c, a) }, ready(p1) };
        let (r2, polls2) = drive(&mut f2, 4);
        assert!(r2.unwrap() == (p1, p0) && polls2 == 1 + nh as usize);
    }
}
