#!/bin/bash
# usage: run.sh <harness> [extra args]
ulimit -v 16000000
h=$1; shift
CARGO_NET_OFFLINE=true timeout 600 cargo kani --output-format terse --harness "$h" "$@" 2>&1 | grep -vE "^warning|^ *\||^ *=|^$|-->|unstable|register_tool" | tail -25
