#!/bin/bash
# Development aid: confirm a seeded change in its scratch worktree: suite passes with it, demo fails with it, demo passes without it.
#   ./verify_seed.sh <worktree> <ID>      -> prints three verdict lines
wt=$1; id=$2; lid=$(echo $id | tr A-Z a-z)
cd $wt || exit 2
export CARGO_NET_OFFLINE=true
mv join/tests/demo_$lid.rs /tmp/demo_$lid.rs.aside
s=$(cargo test --workspace --no-fail-fast --offline --lib --tests 2>&1 | grep -E "^test result" | awk '{p+=$4; f+=$6} END {print p" passed "f" failed"}')
echo "suite-with-change: $s"
mv /tmp/demo_$lid.rs.aside join/tests/demo_$lid.rs
d1=$(cargo test -p join --offline --test demo_$lid --no-fail-fast 2>&1 | grep -E "^test result|error(\[|:)" | head -3 | tr '\n' ' ')
echo "demo-with-change: $d1"
# (not `git stash`: the stash is shared by all worktrees of a repository, and concurrent users pop each other's entries)
git diff > /tmp/verify_seed_$lid.patch; git checkout -q -- .
d2=$(cargo test -p join --offline --test demo_$lid --no-fail-fast 2>&1 | grep -E "^test result|error(\[|:)" | head -3 | tr '\n' ' ')
echo "demo-without-change: $d2"
git apply /tmp/verify_seed_$lid.patch && rm /tmp/verify_seed_$lid.patch
git status --short | head -5
