#!/bin/bash
# Warms the shared Kani and native target directories (offline). Fetches nothing.
set -e
cd "$(dirname "$0")"
export CARGO_NET_OFFLINE=true
python3 - <<'PY'
import os, sys
sys.path.insert(0, os.getcwd())
from jv import driver
from jv.driver import Program, Harness
body = '''    let x = b(); let p = u();
    let r = try_join_spawn! { mk(x, p), mk(true, 1) };
    vassert!(r.is_ok() == x, "setup: smoke");
    let mut f = join_async_spawn! { astep(1, 2, 0, 1u8), astep(3, 4, 0, 2u8) };
    let (r, _, _) = drive(&mut f, 2);
    vassert!(r == Some((1, 2)), "setup: async smoke");
    vcover!(true, "end");'''
h = Harness("setup_0001", [Program("p0001", "smoke", body)])
rc = driver.check("SETUP", "quick", 0, [h], dict(level="other", rule="smoke test of the tool chain"))
ev = os.path.join(driver.VERIF, "evidence", "SETUP.json")
if os.path.exists(ev):
    os.remove(ev)
# native replay tool chain
from jv.driver import native_replay
rep = native_replay(os.path.join(driver.WORK, "SETUP-quick"), "jv_setup_n", "SETUP", "quick", [h], {"setup_0001": [[1], [7]]}, 'futures = "0.3.26"')
ok = all(x[1] == 0 for x in rep.get("setup_0001", [])) and len(rep.get("setup_0001", [])) == 2
print("native replay tool chain:", "ok" if ok else rep)
sys.exit(0 if (rc == 0 and ok) else 1)
PY
