"""C08 - thread-spawning macros: one live, named thread per active branch.

Thread model (DESIGN.md 2.2) with byte-level `format!` rendering ON.  Per program:
  * op log: for every executed step with n > 1 active branches exactly  S(i1)..S(in) J(i1)..J(in)  (all spawned before
    the first join, joined in branch order), nothing for a step with one active branch;
  * every callback (and initial expression) of a multi-branch step runs on thread id = its spawn ordinal and sees the
    name `<parent>_join_<branch>` (`join_<branch>` when the parent is unnamed), byte for byte; items of a single-branch
    step run on the caller (id 0, caller's name);
  * block captures of step s+1 run on the caller with no thread alive; at the end joined == spawned.
Symbolic: early/late bit of every thread, payloads, failure flags (try kinds), parent-name bytes (dedicated programs).
"""
from .driver import Program, pack
from .profiles import *

NAME0 = 200  # not an event id; names are checked through eva(event, bool)


def lit(s):
    return 'b"%s"' % s


def make(pid, macro, profile, root, idx, seed, symbolic_parent=False):
    is_async, is_try, is_spawn = KINDS[macro]
    nb = len(profile)
    maxd = max(profile)
    L = []
    if symbolic_parent:
        L.append("let pb = [u(), u(), u()]; let pl = upto(3) as usize;")
        L.append("t_set_name_bytes(&pb, pl);")
    elif root:
        L.append("t_set_name(\"%s\");" % root)
    for b, d in enumerate(profile):
        for s in range(d):
            L.append("let %s = u();" % p(b, s))
            if is_try:
                L.append("let %s = b();" % o(b, s))
    # expected thread id of (b, s): spawn ordinal when the step has > 1 active branches, else 0 (caller)
    tid = {}
    nxt = 0
    for s in range(maxd):
        act = active(profile, s)
        if len(act) > 1:
            for b in act:
                nxt += 1
                tid[(b, s)] = nxt
        else:
            for b in act:
                tid[(b, s)] = 0

    def name_check(b, s):
        if tid[(b, s)] == 0:
            if symbolic_parent:
                return "t_name_is2(&pb, pl, b\"\")"
            return "t_name_is(%s)" % lit(root) if root else "t_unnamed()"
        if symbolic_parent:
            return "t_name_is2(&pb, pl, %s)" % lit("_join_%d" % b)
        return "t_name_is(%s)" % lit("%s_join_%d" % (root, b) if root else "join_%d" % b)

    def obs(b, s):
        # event E(b,s,0): thread id;  E(b,s,1): name ok
        return "eva(%d, t_cur_id() as u8); eva(%d, %s as u8);" % (E(b, s, 0), E(b, s, 1), name_check(b, s))
    branches = []
    for b, d in enumerate(profile):
        # (not written as a `{..}` block: block initial values are hoisted and evaluated on the caller, see C11)
        if is_try:
            parts = ["(move || { %s mk(%s, %s) })()" % (obs(b, 0), o(b, 0), p(b, 0))]
        else:
            parts = ["(move || { %s %s })()" % (obs(b, 0), p(b, 0))]
        for s in range(1, d):
            cap = "eva(%d, (t_live() as u8) | ((t_cur_id() as u8) << 4)); " % (100 + b * 6 + s)
            if is_try:
                parts.append("~=> { %smove |v: u8| { %s mk(%s, v ^ %s) } }" % (cap, obs(b, s), o(b, s), p(b, s)))
            else:
                parts.append("~-> { %smove |v: u8| { %s v ^ %s } }" % (cap, obs(b, s), p(b, s)))
        branches.append(" ".join(parts))
    text = "%s! {\n        %s\n    }" % (macro, ",\n        ".join(branches))
    L.append("let r = %s;" % text)
    # failing step
    if is_try:
        fs = []
        for s in range(maxd):
            fs.append("if %s { %du8 }" % (" || ".join("!" + o(b, s) for b in active(profile, s)), s))
        fs.append("{ 255u8 }")
        L.append("let fs: u8 = %s;" % " else ".join(fs))
    else:
        L.append("let fs: u8 = 255;")
    msg = lambda t: "\"C08[%s]: %s\"" % (pid, t)
    # op log
    pos = 0
    for s in range(maxd):
        act = active(profile, s)
        if len(act) > 1:
            ops = [tid[(b, s)] for b in act] + [100 + tid[(b, s)] for b in act]
            conds = " && ".join("t_op(%d) == %d" % (pos + k, v) for k, v in enumerate(ops))
            L.append("if fs >= %d { vassert!(t_nops() >= %d && %s, %s); }" % (s, pos + len(ops), conds, msg("a step with n > 1 active branches spawns all n threads before joining any, and joins them in branch order")))
            L.append("if fs == %d { vassert!(t_nops() == %d, %s); }" % (s, pos + len(ops), msg("nothing is spawned after a failed step")))
            pos += len(ops)
        else:
            L.append("if fs == %d { vassert!(t_nops() == %d, %s); }" % (s, pos, msg("a step with a single active branch spawns no thread")))
    L.append("if fs == 255 { vassert!(t_nops() == %d, %s); }" % (pos, msg("exactly one thread per active branch of every multi-branch step")))
    L.append("vassert!(t_spawned() == t_joined() && t_live() == 0, %s);" % msg("the caller continues only after every thread has been joined"))
    for b, d in enumerate(profile):
        for s in range(d):
            L.append("if fs >= %d { vassert!(cnt(%d) == 1 && arg(%d) == %d, %s); }" % (s, E(b, s, 0), E(b, s, 0), tid[(b, s)],
                     msg("each branch of a multi-branch step runs on its own thread; a single active branch runs on the calling thread")))
            L.append("if fs >= %d { vassert!(arg(%d) == 1, %s); }" % (s, E(b, s, 1), msg("thread name is <caller's name>_join_<branch index> (join_<branch index> for an unnamed caller)")))
            if s >= 1:
                L.append("if fs >= %d { vassert!(cnt(%d) == 1 && arg(%d) == 0, %s); }" % (s, 100 + b * 6 + s, 100 + b * 6 + s, msg("between steps the caller runs alone: no thread of the previous step is alive")))
    if nb > 1:
        L.append("vcover!(t_late() > 0 && t_early() > 0, \"some thread runs early and some late\");")
    if is_try:
        L.append("vcover!(fs == 0, \"first step fails\");")
    if symbolic_parent:
        L.append("vcover!(pl == 3, \"three-byte parent name\");")
        L.append("vcover!(pl == 0, \"empty parent name\");")
    L.append("vcover!(fs == 255, \"no failure\");")
    desc = dict(macro=macro, profile=list(profile), root_name=("symbolic <= 3 bytes" if symbolic_parent else root),
                symbolic=["early/late bit per thread", "payloads"] + (["failure flags"] if is_try else []) + (["parent name bytes and length"] if symbolic_parent else []))
    return Program(pid, text, "    " + "\n    ".join(L), desc=desc, group=macro + ("/symbolic-parent" if symbolic_parent else ("/named" if root else "/unnamed")),
                   role=dict(kind=macro), solo=symbolic_parent, unwind=64, weight=1)


def nested(pid, depth, seed, sched):
    """spawn macros nested inside branches: names accumulate `_join_<i>` per level.
    The schedule is fixed (all threads early / all late): with symbolic placement of threads whose bodies spawn
    themselves the query does not finish within the caps."""
    L = ["t_set_name(\"main\");", "t_schedule(%d);" % sched, "let x = u();"]

    def chk(name, ev):
        return "eva(%d, t_name_is(%s) as u8);" % (ev, lit(name))
    if depth == 2:
        text = ("join_spawn! {\n        (move || { %s x })(),\n        join_spawn! { (move || { %s 1u8 })(), try_join_spawn! { (move || { %s mo(true, 2u8) })(), (move || { %s mo(true, 3u8) })() } }\n    }"
                % (chk("main_join_0", 1), chk("main_join_1_join_0", 2), chk("main_join_1_join_1_join_0", 3), chk("main_join_1_join_1_join_1", 4)))
        evs = [1, 2, 3, 4]
        expect = "(x, (1u8, Some((2u8, 3u8))))"
    else:
        text = ("try_join_spawn! {\n        (move || { %s mo(true, x) })() ~=> move |v: u8| { eva(8, t_name_is(b\"main_join_0\") as u8); mo(true, v) },\n        (move || { %s mo(true, 1u8) })() ~=> move |v: u8| { %s spawn! { (move || { %s mo(true, v) })(), (move || { %s spawn! { (move || { %s 5u8 })(), (move || { %s 6u8 })() } })() }.0 }\n    }"
                % (chk("main_join_0", 1), chk("main_join_1", 2), chk("main_join_1", 3), chk("main_join_1_join_0", 4), chk("main_join_1_join_1", 5),
                   chk("main_join_1_join_1_join_0", 6), chk("main_join_1_join_1_join_1", 7)))
        evs = [1, 2, 3, 4, 5, 6, 7, 8]
        expect = "Some((x, 1u8))"
    L.append("let r = %s;" % text)
    L.append("vassert!(r == %s, \"C08[%s]: nested spawn macros compute the nested value\");" % (expect, pid))
    for e in evs:
        L.append("vassert!(cnt(%d) == 1 && arg(%d) == 1, \"C08[%s]: nested spawn macros name threads <parent>_join_<i> at every level\");" % (e, e, pid))
    L.append("vassert!(t_spawned() == t_joined() && t_live() == 0, \"C08[%s]: all threads joined\");" % pid)
    L.append("vcover!(%s, \"threads ran\");" % ("t_early() > 0 && t_late() == 0" if sched == 1 else "t_late() > 0 && t_early() == 0"))
    return Program(pid, text, "    " + "\n    ".join(L), desc=dict(macro="nested spawn macros", depth=depth, schedule="all early" if sched == 1 else "all late"), group="nested", role=dict(kind="join_spawn"), solo=True, unwind=64, weight=6)


def shared_site(pid, macro, variant):
    """ONE textual call site executed more than once, by differently named callers: the name of every thread is derived from the caller of
    THAT evaluation (`sequence`: a function holding the macro is called from a caller named alpha, then beta, then from an unnamed one;
    `nested`: the same function is called from the two branch threads of an outer join_spawn!, fixed schedules)"""
    is_async, is_try, is_spawn = KINDS[macro]
    fn = "site_%s" % pid
    val = (lambda x: "mo(true, %s)" % x) if is_try else (lambda x: x)
    rty = "Option<(u8, u8)>" if is_try else "(u8, u8)"
    items = ("fn %s(x: u8, e: usize, n0: &'static [u8], n1: &'static [u8]) -> %s { %s! { (move || { eva(e, t_name_is(n0) as u8); %s })(), (move || { eva(e + 1, t_name_is(n1) as u8); %s })() } }"
             % (fn, rty, macro, val("x"), val("x ^ 1")))
    un = (lambda e: "%s.unwrap()" % e) if is_try else (lambda e: e)
    L = ["let x = u(); let y = u(); let z = u();"]
    msg = lambda t: "\"C08[%s]: %s\"" % (pid, t)
    if variant == "sequence":
        L.append("t_set_name(\"alpha\"); let a = %s;" % un("%s(x, 1, b\"alpha_join_0\", b\"alpha_join_1\")" % fn))
        L.append("t_set_name(\"beta\"); let b_ = %s;" % un("%s(y, 3, b\"beta_join_0\", b\"beta_join_1\")" % fn))
        L.append("std::thread::set_current_name(None); let c = %s;" % un("%s(z, 5, b\"join_0\", b\"join_1\")" % fn))
        L.append("vassert!(a == (x, x ^ 1) && b_ == (y, y ^ 1) && c == (z, z ^ 1), %s);" % msg("values"))
        evs = [1, 2, 3, 4, 5, 6]
        text = "%s! { .. } inside fn %s, called from callers named alpha, beta and from an unnamed caller" % (macro, fn)
        L.append("vcover!(t_late() > 0 && t_early() > 0, \"some thread runs early and some late\");")
    else:
        sched = 1 if variant == "nested-early" else 2
        L.insert(0, "t_set_name(\"main\"); t_schedule(%d);" % sched)
        L.append("let r = join_spawn! { (move || %s)(), (move || %s)() };" % (un("%s(x, 1, b\"main_join_0_join_0\", b\"main_join_0_join_1\")" % fn), un("%s(y, 3, b\"main_join_1_join_0\", b\"main_join_1_join_1\")" % fn)))
        L.append("vassert!(r == ((x, x ^ 1), (y, y ^ 1)), %s);" % msg("values"))
        evs = [1, 2, 3, 4]
        text = "join_spawn! { (move || %s(..))(), (move || %s(..))() } with %s! { .. } inside fn %s" % (fn, fn, macro, fn)
        L.append("vcover!(%s, \"threads ran\");" % ("t_early() > 0 && t_late() == 0" if sched == 1 else "t_late() > 0 && t_early() == 0"))
    for e in evs:
        L.append("vassert!(cnt(%d) == 1 && arg(%d) == 1, %s);" % (e, e, msg("every evaluation of a call site names its threads after the caller of THAT evaluation: <caller's name>_join_<branch index>")))
    L.append("vassert!(t_spawned() == t_joined() && t_live() == 0, %s);" % msg("all threads joined"))
    return Program(pid, text + "\n    " + items, "    " + "\n    ".join(L), items=items, desc=dict(macro=macro, variant=variant, call_site="one function body, evaluated 2-3 times by differently named callers"),
                   group="shared-site", role=dict(kind=macro), solo=True, unwind=64, weight=6)


def wide(pid, nbr):
    """two-digit branch indices"""
    L = ["t_set_name(\"w\");", "let x = u();"]
    brs = ["(move || { eva(%d, t_name_is(%s) as u8); x ^ %du8 })()" % (1 + b, lit("w_join_%d" % b), b) for b in range(nbr)]
    text = "spawn! {\n        %s\n    }" % ",\n        ".join(brs)
    L.append("let r = %s;" % text)
    for b in range(nbr):
        L.append("vassert!(r.%d == x ^ %du8 && arg(%d) == 1, \"C08[%s]: branch %d runs on a thread named w_join_%d\");" % (b, b, 1 + b, pid, b, b))
    L.append("vassert!(t_spawned() == %d && t_joined() == %d, \"C08[%s]: one thread per branch\");" % (nbr, nbr, pid))
    L.append("vcover!(t_late() > 0 && t_early() > 0, \"some thread runs early and some late\");")
    return Program(pid, text, "    " + "\n    ".join(L), desc=dict(macro="spawn", branches=nbr), group="wide", role=dict(kind="spawn"), solo=True, unwind=64, weight=8)


def programs(tier, seed):
    ps = []
    i = 0
    profs = profiles(3, 3)
    for macro in ("join_spawn", "try_join_spawn"):
        for prof in profs:
            if tier == "quick" and (sum(prof) > 6 or (len(prof) == 1 and prof[0] > 2)):
                continue
            i += 1
            root = ["main", None, "t"][i % 3]
            if tier == "quick" and (i + seed) % 2 and len(prof) == 3:
                continue
            ps.append(make("p%04d" % i, macro, prof, root, i, seed))
    for macro, prof in (("spawn", (2, 1)), ("try_spawn", (1, 2)), ("join_spawn", (1, 1))):
        i += 1
        ps.append(make("p%04d" % i, macro, prof, None, i, seed, symbolic_parent=True))
    for depth in (2, 3):
        for sched in (1, 2):
            i += 1
            ps.append(nested("p%04d" % i, depth, seed, sched))
    i += 1
    ps.append(wide("p%04d" % i, 12))
    for macro, variant in (("join_spawn", "sequence"), ("try_spawn", "nested-early"), ("try_join_spawn", "sequence"), ("spawn", "nested-late")):
        i += 1
        if tier == "quick" and i % 2 == (seed % 2) and variant != "sequence":
            continue
        ps.append(shared_site("p%04d" % i, macro, variant))
    return ps


def generate(tier, seed):
    return pack("c08", programs(tier, seed), 3)


META = dict(
    level="model_checking",
    rule="one program per (thread-spawning macro, depth profile <= 3x3, caller named 'main' / 't' / unnamed) (quick: profiles with <= 6 positions, half of the 3-branch ones); three programs with "
         "a symbolic parent name (<= 3 symbolic bytes, symbolic length); two nested programs (3 levels); one 12-branch program (two-digit indices); profile programs packed 3 per query, the others one per query; "
         "non-trivial = passed with witnesses (thread early+late, first step fails, no failure, 0- and 3-byte parent names); distinct = distinct invocation texts",
    functions_encoded=["expansions of join_spawn!, try_join_spawn!, spawn!, try_spawn! (__tb thread builder helper incl. both format! calls, spawn only when > 1 active branch, all handles joined in branch order)",
                       "mstd::thread model", "mstd::format! byte-level renderer"],
    bounds=["branches <= 3 (12 in the wide program), steps <= 3, nesting <= 3 levels", "thread placement in {earliest, latest} per thread, bodies atomic (nested programs: the two uniform schedules all-early / all-late only)", "parent names <= 3 symbolic bytes or the literals main / t / w"],
    outside=["that real std::thread honours the name and runs bodies in parallel (std's contract)", "interleavings inside thread bodies", "sibling orders other than early-set-then-late-set"],
    assumptions=["thread model and format! model of DESIGN.md 2.2"],
)
