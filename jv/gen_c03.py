"""C03 - step barrier: nothing of step k+1 of any branch starts before every branch active in step k has finished
step k; step k+1 of a branch continues from that branch's own step-k value.

Monitor: event clock.  For every step s >= 1, every item of step s (block capture, callback / async enter) of any
branch must be stamped after the last item of step s-1 of every branch active in s-1.  Value continuity is the
result equality (every position xors its own symbolic payload in).
Schedules: thread model early/late bits (all 2^n per step), async gate pending counts (symbolic <= bound),
tokio model eager-poll bits.
"""
from .driver import Program, pack
from .pp import *


def make(pid, macro, profile, idx, seed, gates=None, heavy=False, cheap=False):
    r = rng(seed, pid)
    is_async, is_try, is_spawn = KINDS[macro]
    if is_try:
        carrier = "res" if (is_async or idx % 2 == 0) else "opt"
    else:
        carrier = ["raw", "opt"][idx % 2]
    styles, captures, extra = {}, set(), set()
    for b, d in enumerate(profile):
        for s in range(d):
            if s >= 1 and carrier != "raw" and not is_async:
                styles[(b, s)] = ["and_then", "map", "then"][(idx + b + s + r.randrange(3)) % 3]
            if s >= 1 and (r.random() < 0.5 or (is_async and len([d_ for d_ in profile if d_ > s]) == 1)):
                captures.add((b, s))
            if not is_async and r.random() < 0.35:
                extra.add((b, s))
    if is_async and cheap:
        # quick tier: later steps are synchronous callbacks under FutureExt::map, pending points in step 0 only
        for b, d in enumerate(profile):
            for s in range(1, d):
                styles[(b, s)] = "amap"
    pp = PP(macro, profile, carrier=carrier, can_fail=False, styles=styles, captures=captures, init_blocks=not is_async,
            extra_instant=extra, gates=gates)
    text = pp.text()
    L = ["names_off();" if is_spawn and not is_async else "", pp.decls()]
    if is_async:
        L.append("let mut fut = %s;" % text)
        L.append("let (r, polls, lost) = drive(&mut fut, %d);" % pp.max_polls())
        L.append("vassert!(r == Some(%s), \"C03[%s]: completes; each step continues from the branch's own previous value\");" % (pp.expected_success(), pid))
        L.append("vassert!(!lost, \"C03[%s]: pending poll without wake-up\");" % pid)
    else:
        L.append("let r = %s;" % text)
        L.append("vassert!(r == %s, \"C03[%s]: each step continues from the branch's own previous value\");" % (pp.expected_success(), pid))

    def last_ev(b, s):
        if is_async:
            return E(b, s, 1)
        if (b, s) in extra:
            return E(b, s, 1)
        return INIT(b) if s == 0 else E(b, s)

    def first_evs(b, s):
        out = []
        if (b, s) in captures:
            out.append(CAP(b, s))
        out.append(E(b, s, 0) if is_async else E(b, s))
        return out
    for s in range(1, max(profile)):
        for b in active(profile, s):
            for e2 in first_evs(b, s):
                L.append("vassert!(cnt(%d) == 1, \"C03[%s]: item of a later step ran once\");" % (e2, pid))
                for b2 in active(profile, s - 1):
                    L.append("vassert!(cnt(%d) == 1 && last(%d) < first(%d), \"C03[%s]: an item of step k+1 started before a branch finished step k\");" % (last_ev(b2, s - 1), last_ev(b2, s - 1), e2, pid))
    if is_spawn and not is_async and len(profile) > 1:
        L.append("vcover!(t_late() > 0 && t_early() > 0, \"some thread runs early and some late\");")
    if is_async and gates:
        a = active(profile, 0)
        if len(a) >= 2:
            L.append("vcover!(%s < %s, \"a lower-numbered branch needs fewer polls\");" % (n(a[0], 0), n(a[-1], 0)))
            L.append("vcover!(%s > %s, \"a higher-numbered branch needs fewer polls\");" % (n(a[0], 0), n(a[-1], 0)))
    L.append("vcover!(true, \"end reached\");")
    body = "\n    ".join(l for l in L if l)
    desc = dict(macro=macro, profile=list(profile), carrier=carrier, captures=sorted(captures), second_actions=sorted(extra),
                symbolic=["payload at each position"] + (["early/late bit per thread"] if is_spawn and not is_async else []) + (["pending count per gate <= %d" % gates] if gates else []) + (["eager-poll bit per task"] if is_spawn and is_async else []))
    return Program(pid, text, "    " + body, desc=desc, group=macro, role=dict(kind=macro), heavy=heavy, solo=is_async,
                   unwind=64 if not is_async else max(12, pp.max_polls() + 3))


def make_err_step(pid, macro, tok, shape):
    """a `~` in front of an ERROR-side operator (`~<|`, `~<=`, `~!>`) is a step boundary like any other, also in try macros (where the handler
    itself can never run: a step is only reached with a success).  shape 'mid': branch 0 = s0 `|> a` s1 `~X h` s2 `~|> c`, branch 1 = s0, s1 `~|> d`,
    s2 `~|> e`;  shape 'tail': branch 0 = s0, s1 `~X h |> a` (an instant operator after the handler), branch 1 = s0 `|> d`"""
    is_async, is_try, is_spawn = KINDS[macro]
    A, C, D, Ee, H = 40, 41, 42, 43, 44
    if is_async:
        cb = lambda e: "move |r: Result<u8, u8>| { ev(%d); r }" % e
        h = {"<=": "move |e: u8| { ev(%d); ready(mk(true, e)) }" % H, "!>": "move |e: u8| { ev(%d); e }" % H}[tok]
        init = lambda o_, p_: "ready(mk(%s, %s))" % (o_, p_)
    else:
        cb = lambda e: "move |v: u8| { ev(%d); v }" % e
        h = {"<|": "lv(%d, mk(true, q))" % H, "<=": "move |e: u8| { ev(%d); mk(true, e) }" % H, "!>": "move |e: u8| { ev(%d); e }" % H}[tok]
        init = lambda o_, p_: "mk(%s, %s)" % (o_, p_)
    if shape == "mid":
        b0 = "%s |> %s ~%s %s ~|> %s" % (init("o0", "p0"), cb(A), tok, h, cb(C))
        b1 = "%s ~|> %s ~|> %s" % (init("o1", "p1"), cb(D), cb(Ee))
        order = "cnt(%d) == 1 && cnt(%d) == 1 && cnt(%d) == 1 && cnt(%d) == 1 && last(%d) < first(%d) && last(%d) < first(%d) && last(%d) < first(%d)" % (A, C, D, Ee, A, D, D, C, D, Ee)
    else:
        b0 = "%s ~%s %s |> %s" % (init("o0", "p0"), tok, h, cb(A))
        b1 = "%s |> %s" % (init("o1", "p1"), cb(D))
        order = "cnt(%d) == 1 && cnt(%d) == 1 && last(%d) < first(%d)" % (A, D, D, A)
    text = "%s! {\n        %s,\n        %s\n    }" % (macro, b0, b1)
    msg = lambda t: "\"C03[%s]: %s\"" % (pid, t)
    L = ["names_off();" if is_spawn and not is_async else "", "let o0 = b(); let o1 = b(); let p0 = u(); let p1 = u(); let q = u();"]
    if is_async:
        L.append("let mut fut = %s;" % text)
        L.append("let (r, polls, lost) = drive(&mut fut, 4);")
        L.append("vassert!(r.is_some(), %s);" % msg("completes"))
        L.append("let r = r.unwrap();")
    else:
        L.append("let r = %s;" % text)
    L.append("if o0 && o1 { vassert!(r == %s, %s); vassert!(%s, %s); }" % ("Ok((p0, p1))" if is_try else "(Ok(p0), Ok(p1))", msg("value"), order, msg("a `~` in front of `<|` / `<=` / `!>` starts a new step: what follows it waits for every branch to finish the previous step")))
    L.append("vcover!(o0 && o1, \"all succeed\");")
    if is_try and not is_async and tok == "<|":
        # (the non-block operand of `<|` is an ordinary expression of its step: evaluated when the step is reached, so never after a failure)
        L.append("if !(o0 && o1) { vassert!(cnt(%d) == 0, %s); }" % (H, msg("the operand of `~<|` belongs to the next step")))
    return Program(pid, text, "    " + "\n    ".join(l for l in L if l), desc=dict(macro=macro, operator="~" + tok, shape=shape, symbolic=["ok flags", "payloads"] + (["early/late bit per thread"] if is_spawn and not is_async else [])),
                   group="err-step/" + macro, role=dict(kind=macro), unwind=64 if not is_async else 12, solo=is_async, weight=2)


def programs(tier, seed):
    ps = []
    i = 0
    allp = [pr for pr in (profiles(3, 3) if tier == "quick" else profiles(4, 3)) if max(pr) >= 2]
    for macro in ("join", "try_join", "join_spawn", "try_join_spawn"):
        for prof in allp:
            if tier == "quick" and not KINDS[macro][2] and len(prof) == 3 and (sum(prof) + i) % 2:
                i += 1
                continue
            if tier == "quick" and KINDS[macro][2] and (len(prof) == 1 or (len(prof) == 3 and sum(prof) > 6)):
                continue
            i += 1
            ps.append(make("p%04d" % i, macro, prof, i, seed))
    if tier == "quick":
        aprofs = [("join_async", (2, 2), 1, False), ("join_async", (1, 2, 2), 1, False), ("try_join_async", (2, 1), 1, False),
                  ("join_async_spawn", (2, 1), 1, False), ("try_join_async_spawn", (1, 2), 1, False)]
    else:
        # (macro, profile, max pending count, heavy, cheap later steps).  Real pending points in later steps only where at
        # most one branch has a later step: with two such branches CBMC needs more than the 12 GB cap (measured).
        aprofs = [("join_async", (2, 1), 2, True, False), ("join_async", (1, 2), 1, True, False), ("join_async", (1, 2, 1), 1, True, False), ("join_async", (3, 1), 1, True, False),
                  ("try_join_async", (2, 1), 1, True, False), ("try_join_async", (1, 2), 1, True, False),
                  ("join_async_spawn", (1, 2), 1, True, False), ("try_join_async_spawn", (1, 2), 1, True, False), ("try_join_async_spawn", (2, 1), 1, True, False),
                  ("join_async", (2, 2), 2, True, True), ("join_async", (1, 2, 2), 1, True, True), ("join_async", (2, 2, 1), 1, True, True), ("join_async", (3, 1, 2), 1, True, True),
                  ("join_async", (3, 3), 1, True, True), ("try_join_async", (2, 2), 1, True, True), ("join_async_spawn", (2, 2), 1, True, True), ("try_join_async_spawn", (2, 2), 1, True, True)]
    if tier == "quick":
        aprofs = [a + (True,) for a in aprofs]
    # steps with a SINGLE active branch that are not the last step (awaited directly, without join!): one-branch programs and a
    # unique longest branch outliving the others by two steps
    aprofs += [("join_async", (3,), 1, False, True), ("join_async", (1, 3), 1, False, True), ("try_join_async", (3,), 1, False, True),
               ("join_async_spawn", (3, 1), 1, False, True), ("try_join_async_spawn", (1, 3), 1, False, True)]
    for macro, prof, gates, heavy, cheap in aprofs:
        i += 1
        ps.append(make("p%04d" % i, macro, prof, i, seed, gates=gates, heavy=heavy, cheap=cheap))
    # a `~` in front of a wrapper-opening operator (`~X >>> .. <<<`) is a step boundary like any other: two-branch programs for each of the
    # ten wrapper-capable operators in which the other branch logs in the other step (shared with C14's flag family)
    from .gen_c14 import wrapper_flag_programs
    a, _ = wrapper_flag_programs(tier, seed, 7000, prop="C03")
    for p_ in a:
        p_.group = "wrapper-barrier"
    ps += a
    # ... and like a `~` in front of an operator WITHOUT an expression operand (`~=>[]`, `~^^>`, `~|n>`, `~<->`, `~..`): shared with C14's flag family
    from .gen_c14 import flag_programs
    a, _ = flag_programs(tier, seed, 7200, prop="C03", only_ops=("=>[]", "=>[]u", "^^>", "|n>", "<->", "..", ">."))
    for p_ in a:
        p_.group = "adaptor-barrier"
    ps += a
    k = 7500
    for macro, toks in (("try_join", ("<|", "<=", "!>")), ("join", ("<|", "!>")), ("try_join_spawn", ("<|", "<=", "!>")), ("try_join_async", ("<=", "!>")), ("join_async", ("!>",))):
        for tok in toks:
            for shape in ("mid", "tail"):
                k += 1
                if tier == "quick" and (k + seed) % 2 and macro != "try_join":
                    continue
                ps.append(make_err_step("p%04d" % k, macro, tok, shape))
    return ps


def generate(tier, seed):
    return pack("c03", programs(tier, seed), 6)


META = dict(
    level="model_checking",
    rule="one program per (macro kind, depth profile with >= 2 steps); carrier, step operators, block captures (p=0.5) and second actions (p=0.35) vary with index and seed; "
         "sync/thread programs packed 6 per query, async programs one per query; non-trivial = passed with witnesses (thread early+late, both gate orders); distinct = distinct invocation texts",
    functions_encoded=["expansions of all eight macro kinds (JoinOutput::new step splitting, generate_steps nesting, generate_step joins, thread join before destructuring, futures join!/try_join!)"],
    bounds=["branches <= 3 (quick) / 4 (thorough), steps <= 3", "async: profiles listed in gen_c03.py, gates pending <= 1 (quick) / <= 2 (thorough); real pending points in later steps only where at most one branch has a later step, otherwise later steps are synchronous callbacks under FutureExt::map",
            "thread placement in {earliest, latest} per thread, bodies atomic", "task placement: polled eagerly at spawn or only through its handle"],
    outside=["interleavings inside a thread body", "more than two pending polls per gate", "real tokio / OS scheduling"],
    assumptions=["thread and tokio models of DESIGN.md 2.2", "format! model returns an empty string (names are not observed here)"],
    timeout_s=None,
)
META.pop("timeout_s")
