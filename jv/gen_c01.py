"""C01 - every combinator operator means its documented method call (translation validation).

Query per program:  macro!{ v OPS.. } == v.reference_chain()  for all symbolic inputs, plus equal callback traces
(per-callback count and argument xor, and an order-sensitive hash over (callback id, argument)).
"""
import re

from .driver import Program, pack
from .dsl import *
from .profiles import rng, KINDS


def trace_vars(ids):
    """nested tuples of at most 5 callbacks each (tuples with more than 12 elements have no PartialEq)"""
    chunks = [ids[k:k + 5] for k in range(0, len(ids), 5)]
    return ", ".join("(" + ", ".join("cnt(%d), argx(%d)" % (i, i) for i in ch) + ",)" for ch in chunks)


WEIGHTS = {"?&!>": 40, "?>": 6, "?|>": 6, "^^>": 5, "<->": 3, "=>[]": 2, ">@>": 2}


def weight_of(chain, input_expr=""):
    input_expr = re.sub(r"^lv\(\d+, ", "", input_expr)
    w = 1.0
    varlen = False      # an iterator whose length depends on the input
    mult = 1.0          # every chained iterator adds elements to loop over
    for st in chain:
        if input_expr.startswith("[") or st.op in ("?&!>", "<->", "=>[]"):
            w += WEIGHTS.get(st.op, 0) * mult
        if st.op in ("?&!>", "<->", "=>[]") and varlen:
            w += 30     # Vec of symbolic length: growth paths + element-wise comparison
        if st.op in ("?>", "?|>", "^^>"):
            varlen = True
        if st.op == ">@>":
            mult += 0.7
        if st.inner is not None:
            w += weight_of(st.inner, input_expr)
    return int(round(w))


NO_EXPR_OPERAND = {"..", ">.", "=>[]", "=>[]u", "|n>", "^^>", "<->"}


def split_top_comma(text):
    depth = 0
    for k, ch in enumerate(text):
        if ch in "([{":
            depth += 1
        elif ch in ")]}":
            depth -= 1
        elif ch == "," and depth == 0:
            return text[:k].strip(), text[k + 1:].strip()
    raise ValueError(text)


def blockify(st, ids=None):
    """the step's macro text with every expression operand written as a `{ .. }` block (such operands are evaluated in front of the step);
    ids: list to which the id of every block is appended, in the order of writing - every block logs `blk(id)`"""
    if st.op in NO_EXPR_OPERAND or st.inner is not None:
        return st.mac
    op, _, rest = st.mac.partition(" ")
    if not rest.strip():
        return st.mac

    def blk():
        if ids is None:
            return ""
        ids.append(len(ids) + 1)
        return "blk(%d); " % ids[-1]
    if st.op in ("^@", "?^@"):
        a, b = split_top_comma(rest)
        return "%s { %s%s }, { %s%s }" % (op, blk(), a, blk(), b)
    if st.op == "?&!>":
        # (the DSL renders partition as TWO operators, `?&!> pred -> typed identity`: each operand is its own block)
        a, b = rest.split(" -> move |v: (Vec<", 1)
        return "%s { %s%s } -> { %smove |v: (Vec<%s }" % (op, blk(), a, blk(), b)
    return "%s { %s%s }" % (op, blk(), rest)


def has_operand(st):
    return st.op not in NO_EXPR_OPERAND and st.inner is None and st.mac.partition(" ")[2].strip() != ""


def build(pid, macro, ctx, input_expr, chain, final_t, second_branch=False, group="", extra_desc=None, heavy=False, unwind=12, tok=False, prop="C01",
          blocks=False, block_init=False):
    """program comparing macro and reference on the same symbolic input
    blocks: every expression operand is written as a block; block operands are evaluated before the chain starts, so operand
    expressions are not logged in these programs (callbacks still are)"""
    is_async, is_try, is_spawn = KINDS[macro]
    cmpf = finish(final_t)
    if "usize" in str(final_t) and "vec" in str(final_t):
        unwind = max(unwind, 44)    # Vec<usize> equality is a byte-wise memcmp loop: 8 bytes per element
    # the initial expression is logged too (evaluated exactly once; not a `{..}` block, so it is not hoisted)
    i_init = ctx.cid()
    input_expr = "lv(%d, %s)" % (i_init, input_expr)
    mac_chain = render_mac(chain)
    ref = render_ref(chain, input_expr)
    if blocks:
        unlog = lambda x: re.sub(r"lv\(\d+, ", "(", x)
        blk_ids = [0] if block_init else []     # (a block initial value is the first block of its branch)
        mac_chain = unlog(" ".join(("~" if st.deferred else "") + blockify(st, blk_ids) for st in chain))
        ref = unlog(render_ref(chain, "@BASE@")).replace("@BASE@", input_expr)
    ids = [i_init] + all_ids(chain)
    ref_input = input_expr
    if block_init:
        input_expr = "{ blk(%d); %s }" % (len(blk_ids) + 1, input_expr)
        blk_ids[0] = len(blk_ids) + 1
    if second_branch:
        text = "%s! { %s, %s %s }" % (macro, "mo(true, 7u8)" if is_try and final_t[0] == "opt" else ("mk(true, 7u8)" if is_try else "7u8"), input_expr, mac_chain)
    else:
        text = "%s! { %s %s }" % (macro, input_expr, mac_chain)
    L = ["names_off();" if is_spawn else ""] + ctx.decls
    L.append("let m = %s;" % text)
    if ids:
        L.append("let tm = (%s, trace(), ncalls());" % trace_vars(ids))
    if blocks:
        h = 0
        for b_ in blk_ids:
            h = (h * 31 + b_) & 0xFFFFFFFF
        L.append("vassert!(blk_hash() == %du32, \"C01[%s]: every operand block is evaluated exactly once, in the order of writing (initial value first)\");" % (h, pid))
    L.append("reset_calls();")
    L.append("let r = %s;" % ref)
    if ids:
        L.append("let tr = (%s, trace(), ncalls());" % trace_vars(ids))
    if second_branch:
        if is_try:
            if final_t[0] == "opt":
                L.append("let r = match r { Some(x) => Some((7u8, x)), None => None };")
            else:
                L.append("let r = match r { Ok(x) => Ok((7u8, x)), Err(e) => Err(e) };")
            L.append("vassert!(m == r, \"C01[%s]: macro value == documented method chain (second branch of a try macro)\");" % pid)
        else:
            L.append("vassert!(m.0 == 7u8 && %s, \"C01[%s]: macro value == documented method chain (second branch)\");" % (cmpf("m.1", "r"), pid))
    else:
        L.append("vassert!(%s, \"C01[%s]: macro value == documented method chain\");" % (cmpf("m", "r"), pid))
    if ids:
        L.append("vassert!(tm == tr, \"C01[%s]: callbacks are invoked with the same arguments, equally often and in the same order as by the method chain\");" % pid)
    if tok:
        # move-only payloads: everything created (by both sides) must have been dropped exactly once when the values go out of scope
        L = [L[0]] + ["{"] + ["    " + l for l in L[1:]] + ["}",
             "vassert!(tok_balance(), \"C10[%s]: every move-only value is dropped exactly once (created == dropped, value sums equal)\");" % pid,
             "vcover!(created() > 0, \"tokens were created\");"]
    L.append("vcover!(true, \"end reached\");")
    if prop != "C01":
        L = [l.replace("C01[", prop + "[") for l in L]
    desc = dict(macro=macro, operators=[("~" if s.deferred else "") + s.op + (" >>>" if s.inner is not None else "") for s in chain], final_type=str(final_t), reference=ref)
    if blocks:
        desc["operands"] = "written as { .. } blocks" + (", block initial value" if block_init else "")
    if extra_desc:
        desc.update(extra_desc)
    return Program(pid, text, "    " + "\n    ".join(l for l in L if l), desc=desc, group=group, role=dict(kind=macro), unwind=unwind, heavy=heavy,
                   weight=weight_of(chain, input_expr) * (3 if (is_spawn and second_branch) else 1))


def typeable_inputs(opname, ctx_rnd):
    out = []
    for t in INPUT_TYPES:
        c = Ctx(random.Random(1))
        if OPS[opname](c, t) is not None:
            out.append(t)
    return out


def singles(tier, seed, start):
    ps = []
    i = start
    for nm in OP_NAMES:
        for t in typeable_inputs(nm, None):
            if tier == "quick" and t in (OPT(PAIR(U8, U8)), RES(OPT(U8))) and nm not in ("^^>",):
                continue
            # every operator alone, written instantly AND as the first operator of a later step (`~op`): the latter starts
            # from the previous step's result instead of from the initial expression (operators whose method takes
            # `&mut self` - find, find_map, try_fold, nth.. - need that result to be a mutable place)
            for deferred in (False, True):
                if deferred and nm in ("?&!>", "<->", "=>[]", "=>[]u") :
                    continue
                i += 1
                pid = "p%04d" % i
                ctx = Ctx(rng(seed, pid), itlen=2 if ((tier == "quick" and nm == "?&!>" and t != IT(U8)) or deferred) else 3)
                inp = ctx.value(t)
                st = OPS[nm](ctx, t)
                st.deferred = deferred
                ps.append(build(pid, "join", ctx, inp, [st], st.out, group="single"))
    return ps, i


def pair_programs(tier, seed, start):
    """every typeable ordered pair of operators (quick: a seed-chosen third)"""
    ps = []
    i = start
    r = rng(seed, "pairs")
    for a in OP_NAMES:
        for bname in OP_NAMES:
            found = None
            types = list(INPUT_TYPES)
            r.shuffle(types)
            for t in types:
                for attempt in range(4):
                    c = Ctx(random.Random("%s-%s-%s-%d-%d" % (seed, a, bname, attempt, INPUT_TYPES.index(t))), itlen=2 if tier == "quick" else 3)
                    inp = c.value(t)
                    s1 = OPS[a](c, t)
                    if s1 is None:
                        break
                    s2 = OPS[bname](c, s1.out)
                    if s2 is not None:
                        found = (c, inp, [s1, s2], s2.out)
                        break
                if found:
                    break
            if not found:
                continue
            i += 1
            if tier == "quick" and r.random() > 0.25:
                continue
            c, inp, chain, out = found
            if c.rnd.random() < 0.25:
                chain[1].deferred = True
            ps.append(build("p%04d" % i, "join", c, inp, chain, out, group="pair"))
    return ps, i


def block_programs(tier, seed, start):
    """every typeable ordered pair of operand-carrying operators with the operands written as blocks (quick: a seed-chosen third);
    every second program also writes the initial value as a block"""
    ps = []
    i = start
    r = rng(seed, "blocks")
    for a in OP_NAMES:
        for bname in OP_NAMES:
            if a in NO_EXPR_OPERAND or bname in NO_EXPR_OPERAND:
                continue
            found = None
            types = list(INPUT_TYPES)
            r.shuffle(types)
            for t in types:
                for attempt in range(4):
                    c = Ctx(random.Random("blk-%s-%s-%s-%d-%d" % (seed, a, bname, attempt, INPUT_TYPES.index(t))), itlen=2)
                    inp = c.value(t)
                    s1 = OPS[a](c, t)
                    if s1 is None:
                        break
                    s2 = OPS[bname](c, s1.out)
                    if s2 is not None and has_operand(s1) and has_operand(s2):
                        found = (c, inp, [s1, s2], s2.out)
                        break
                if found:
                    break
            if not found:
                continue
            i += 1
            if tier == "quick" and r.random() > 0.34:
                continue
            c, inp, chain, out = found
            if c.rnd.random() < 0.25:
                chain[1].deferred = True
            ps.append(build("p%04d" % i, "join", c, inp, chain, out, group="blocks", blocks=True, block_init=(i % 2 == 0)))
    return ps, i


def sampled_chains(tier, seed, start, count):
    ps = []
    i = start
    r = rng(seed, "chains")
    while len(ps) < count:
        i += 1
        pid = "p%04d" % i
        ctx = Ctx(rng(seed, pid), itlen=2 if tier == "quick" else 3)
        t = r.choice(INPUT_TYPES)
        inp = ctx.value(t)
        chain, out = random_chain(ctx, t, r.randint(3, 6))
        if len(chain) < 3:
            continue
        for st in chain[1:]:
            if ctx.rnd.random() < 0.2:
                st.deferred = True
        ps.append(build(pid, "join", ctx, inp, chain, out, group="chain"))
    return ps, i


def macro_variants(tier, seed, start, count):
    """chains under try_join!, the thread-spawning names (single branch and as branch 1 of 2) and aliases"""
    ps = []
    i = start
    r = rng(seed, "variants")
    plan = []
    for macro in ("try_join", "join_spawn", "try_join_spawn", "spawn", "try_spawn"):
        for second in (False, True):
            plan.append((macro, second))
    k = 0
    while len(ps) < count:
        macro, second = plan[k % len(plan)]
        k += 1
        i += 1
        pid = "p%04d" % i
        ctx = Ctx(rng(seed, pid), itlen=2 if tier == "quick" else 3)
        is_try = KINDS[macro][1]
        t = r.choice([OPT(U8), RES(U8), IT(U8), OPT(OPT(U8)), IT(OPT(U8))])
        inp = ctx.value(t)
        chain, out = random_chain(ctx, t, r.randint(1, 3))
        if not chain:
            continue
        if is_try and out[0] not in ("opt", "res"):
            # end in an Option/Result so that the try macro types
            st = op_then(ctx, out) if not has_iter(out) else None
            fixed = False
            for _ in range(6):
                if has_iter(out):
                    st = ctx.rnd.choice([op_find_map, op_find, op_try_fold])(ctx, out)
                else:
                    c, cid_ = cl(ctx, "v: %s" % ty(out), "mo(v.obs() > %s, v.obs())" % ctx.k(), "v.obs()")
                    st = Step("->", "-> " + c, (lambda c: lambda b: "(%s)(%s)" % (c, b))(c), OPT(U8), ids=[cid_])
                if st is not None:
                    chain.append(st)
                    out = st.out
                    fixed = out[0] in ("opt", "res")
                    if fixed:
                        break
            if not fixed:
                continue
        if (second or KINDS[macro][2]) and has_iter(out) and False:
            continue
        ps.append(build(pid, macro, ctx, inp, chain, out, second_branch=second, group="variant/" + macro))
    return ps, i


# ---- async: future-level operators over ready(..) -----------------------------------------------------------
def future_program(pid, macro, seed, length):
    ctx = Ctx(rng(seed, pid))
    r = ctx.rnd
    t = r.choice([RES(U8), RES(U8), OPT(U8), U8])
    inp = "ready(%s)" % ctx.value(t)
    mac, ref = [], inp
    cur = t
    ops = []
    for _ in range(length):
        cands = ["|>", "??", "->", ".."]
        if cur[0] == "res":
            cands += ["!>"]
            # and_then / or_else nest state machines: two of them in a chain of three or more exceed the 12 GB cap (measured)
            if sum(1 for o_ in ops if o_ in ("=>", "<=")) < (1 if length >= 3 else 2):
                cands += ["=>", "<=", "=>", "<="]
        op = r.choice(cands)
        ops.append(op)
        if op == "|>":
            c, out, _ = map_fn(ctx, cur) if not (cur[0] in ("opt", "res") and r.random() < 0.5) else (None, None, None)
            if c is None:
                c, _ = cl(ctx, "v: %s" % ty(cur), "v", "v.obs()")
                out = cur
            mac.append("|> " + c)
            ref = "%s.map(%s)" % (ref, c)
            cur = out
        elif op == "??":
            c, _ = cl(ctx, "v: &%s" % ty(cur), "", "v.obs()")
            mac.append("?? " + c)
            ref = "%s.inspect(%s)" % (ref, c)
        elif op == "->":
            mac.append("-> fut_id")
            ref = "fut_id(%s)" % ref
        elif op == "..":
            mac.append("..fuse()")
            ref = "%s.fuse()" % ref
        elif op == "=>":
            c, _ = cl(ctx, "v: u8", "ready(mk(v > %s, v ^ 1))" % ctx.k(), "v")
            mac.append("=> " + c)
            ref = "%s.and_then(%s)" % (ref, c)
            cur = RES(U8)
        elif op == "<=":
            c, _ = cl(ctx, "e: u8", "ready(mk(e > %s, e ^ 2))" % ctx.k(), "e")
            mac.append("<= " + c)
            ref = "%s.or_else(%s)" % (ref, c)
            cur = RES(U8)
        elif op == "!>":
            c, _ = cl(ctx, "e: u8", "e ^ %s" % ctx.k(), "e")
            mac.append("!> " + c)
            ref = "%s.map_err(%s)" % (ref, c)
    is_try = KINDS[macro][1]
    if is_try and cur[0] != "res":
        c, _ = cl(ctx, "v: %s" % ty(cur), "mk(v.obs() > %s, v.obs())" % ctx.k(), "v.obs()")
        mac.append("|> " + c)
        ref = "%s.map(%s)" % (ref, c)
        cur = RES(U8)
    ids = ctx.ids
    text = "%s! { %s %s }" % (macro, inp, " ".join(mac))
    L = list(ctx.decls)
    L.append("let mut m = %s;" % text)
    L.append("vassert!(ncalls() == 0, \"C01[%s]: async macro is lazy\");" % pid)
    L.append("let pm = poll_once(&mut m);")
    L.append("let tm = (%s, trace(), ncalls());" % trace_vars(ids) if ids else "let tm = ();")
    L.append("reset();")
    L.append("let mut r = Box::pin(%s);" % ref)
    L.append("let pr = poll_once(&mut r);")
    L.append("let tr = (%s, trace(), ncalls());" % trace_vars(ids) if ids else "let tr = ();")
    L.append("vassert!(pm == pr && pm.is_ready(), \"C01[%s]: future-level operators == FutureExt/TryFutureExt method chain\");" % pid)
    L.append("vassert!(tm == tr, \"C01[%s]: same callback trace as the method chain (async)\");" % pid)
    L.append("vcover!(true, \"end reached\");")
    desc = dict(macro=macro, operators=ops, reference=ref)
    # and_then / or_else futures nest state machines: the dominant cost of async queries
    w = 2 + len(ops) + 5 * sum(1 for o_ in ops if o_ in ("=>", "<=")) + (4 if KINDS[macro][2] else 0)
    return Program(pid, text, "    " + "\n    ".join(L), desc=desc, group="future/" + macro, role=dict(kind=macro), unwind=12, weight=w)


# ---- async: stream-level operators over stream::iter(..) (thorough tier only, one or two elements) ---------------------
STREAM_OPS = {
    "|>": lambda c: ("|> move |v: u8| { call(%d, v); v ^ %s }" % (c.cid(), c.k()), ".map(%s)"),
    "?>": lambda c: ("?> move |v: &u8| { call(%d, *v); ready(*v > %s) }" % (c.cid(), c.k()), ".filter(%s)"),
    "?|>": lambda c: ("?|> move |v: u8| { call(%d, v); ready(mo(v > %s, v ^ 1)) }" % (c.cid(), c.k()), ".filter_map(%s)"),
    "|n>": lambda c: ("|n>", ".enumerate()"),
    ">@>": lambda c: (">@> stream::iter([%s])" % c.k(), ".chain(%s)"),
    ">^>": lambda c: (">^> stream::iter([%s])" % c.k(), ".zip(%s)"),
}


def stream_program(pid, macro, seed, opname, nelem, fold):
    ctx = Ctx(rng(seed, pid))
    elems = ", ".join(ctx.k() for _ in range(nelem))
    inp = "stream::iter([%s])" % elems if nelem else "stream::iter([0u8; 0])"
    mac, refsuffix = STREAM_OPS[opname](ctx)
    operand = mac.split(" ", 1)[1] if " " in mac else ""
    ref = inp + (refsuffix % operand if "%s" in refsuffix else refsuffix)
    if fold:
        # consume with the stream-level fold (async closure), the macro yields a future of u8
        k = ctx.k()
        item = "v.0 as u8 ^ v.1" if opname == "|n>" else ("v.0 ^ v.1" if opname == ">^>" else "v")
        tail_m = " ^@ %s, move |a: u8, v| ready(a.wrapping_mul(3) ^ (%s))" % (k, item)
        tail_r = ".fold(%s, move |a: u8, v| ready(a.wrapping_mul(3) ^ (%s)))" % (k, item)
    else:
        tail_m = " =>[] Vec<_>"
        tail_r = ".collect::<Vec<_>>()"
    text = "%s! { %s %s%s }" % (macro, inp, mac, tail_m)
    ids = ctx.ids
    L = list(ctx.decls)
    L.append("let mut m = %s;" % text)
    L.append("vassert!(ncalls() == 0, \"C01[%s]: async macro is lazy\");" % pid)
    L.append("let pm = poll_once(&mut m);")
    L.append("let tm = (%s, trace(), ncalls());" % trace_vars(ids) if ids else "let tm = ();")
    L.append("reset_calls();")
    L.append("let mut r = Box::pin(%s%s);" % (ref, tail_r))
    L.append("let pr = poll_once(&mut r);")
    L.append("let tr = (%s, trace(), ncalls());" % trace_vars(ids) if ids else "let tr = ();")
    L.append("vassert!(pm == pr && pm.is_ready(), \"C01[%s]: stream-level operators == StreamExt method chain\");" % pid)
    L.append("vassert!(tm == tr, \"C01[%s]: same callback trace as the StreamExt chain\");" % pid)
    L.append("vcover!(true, \"end reached\");")
    return Program(pid, text, "    " + "\n    ".join(L), desc=dict(macro=macro, stream_operator=opname, elements=nelem, consumer="fold" if fold else "collect"),
                   group="stream/" + macro, role=dict(kind=macro), unwind=44, heavy=True, solo=True, weight=20)


def stream_programs(tier, seed, start):
    ps = []
    i = start
    if tier != "thorough":
        return ps, i
    for k, opname in enumerate(STREAM_OPS):
        # measured: Vec collection of two elements and filter/filter_map over two elements exceed 12 GB in CBMC; one element each
        # (measured: `>@>` / `>^>` consumed by `=>[] Vec<_>` do not finish in 1200 s even with 0+1 / 1+1 elements: consumed by the fold only)
        for nelem, fold in ((0 if opname == ">@>" else 1, opname in (">@>", ">^>")), (2 if opname in ("|>", "|n>", ">@>", ">^>") else 1, True)):
            i += 1
            ps.append(stream_program("p%04d" % i, ["join_async", "join_async_spawn"][k % 2] if False else "join_async", seed, opname, nelem, fold))
    return ps, i


# ---- initial values that bind weaker than a method call -----------------------------------------------------------------
INITIAL_SHAPES = [
    # (name, declarations, macro kind, branch text, reference expression)
    ("xor", "", "join", "k0 ^ k1 ..wrapping_add(k2)", "(k0 ^ k1).wrapping_add(k2)"),
    ("not", "", "join", "!k0 ..count_ones()", "(!k0).count_ones()"),
    ("or-count", "", "join", "k0 | k1 ..count_ones(), k2", "((k0 | k1).count_ones(), k2)"),
    ("cast", "", "join", "k0 as u16 ..wrapping_mul(257)", "(k0 as u16).wrapping_mul(257)"),
    ("and-then_some", "", "join", "f0 && f1 ..then_some(k0)", "(f0 && f1).then_some(k0)"),
    ("deref", "let rr = &k1;", "join", "*rr ..wrapping_add(k0)", "(*rr).wrapping_add(k0)"),
    ("ref", "let ar = [k0, k1];", "join", "&ar ..len()", "(&ar).len()"),
    ("cmp-call", "", "join", "k0 < k1 -> move |c: bool| { call(1, c as u8); !c }", "!(k0 < k1)"),
    ("xor-spawn", "", "join_spawn", "k0 ^ k1 ..wrapping_add(k2), k0 & k1 ~-> move |v: u8| { call(1, v); v ^ 1 }", "((k0 ^ k1).wrapping_add(k2), (k0 & k1) ^ 1)"),
    ("xor-try", "", "try_join", "mo(f0, k0 ^ k1) |> move |v: u8| { call(1, v); v }, f0 || f1 ..then_some(k2)", "(match (mo(f0, k0 ^ k1), (f0 || f1).then_some(k2)) { (Some(a), Some(b)) => Some((a, b)), _ => None })"),
    ("neg-wrapping", "let sx = (k0 >> 1) as i8;", "join", "-sx ..wrapping_abs()", "(-sx).wrapping_abs()"),
    ("xor-async", "", "join_async", "ready(k0 ^ k1) |> move |v: u8| { call(1, v); v }, k0 ^ k1 ..wrapping_add(k2) -> ready", "(k0 ^ k1, (k0 ^ k1).wrapping_add(k2))"),
]


def initial_shape_programs(tier, seed, start):
    """the initial value of a branch is an arbitrary expression: combinators apply to the WHOLE value also when it binds weaker than a method
    call (unary / binary operator, cast, dereference, reference) - `-a ..abs()` is `(-a).abs()`"""
    ps = []
    i = start
    for k, (name, decls, macro, text, ref) in enumerate(INITIAL_SHAPES):
        i += 1
        if tier == "quick" and (k + seed) % 2 and name not in ("xor", "or-count"):
            continue
        pid = "p%04d" % i
        L = ["names_off();" if "spawn" in macro and "async" not in macro else "", "let k0 = u(); let k1 = u(); let k2 = u(); let f0 = b(); let f1 = b();", decls]
        mtext = "%s! { %s }" % (macro, text)
        if macro == "join_async":
            L.append("let mut fut = %s;" % mtext)
            L.append("let m = match poll_once(&mut fut) { Poll::Ready(v) => v, Poll::Pending => { vassert!(false, \"C01[%s]: ready futures complete with one poll\"); return; } };" % pid)
        else:
            L.append("let m = %s;" % mtext)
        L.append("let r = %s;" % ref)
        L.append("vassert!(m == r, \"C01[%s]: combinators apply to the whole initial value, whatever kind of expression it is\");" % pid)
        L.append("vcover!(true, \"end reached\");")
        ps.append(Program(pid, mtext, "    " + "\n    ".join(l for l in L if l), desc=dict(macro=macro, initial_value_shape=name, reference=ref), group="initial-shape",
                          role=dict(kind=macro, shape="initial value binds weaker than a method call"), unwind=12, weight=1))
    return ps, i


def programs(tier, seed):
    ps = all_programs(tier, seed)
    if tier == "quick":
        # quick tier: programs with two partition steps (or partition + another allocation-heavy step) are thorough-only
        ps = [p for p in ps if p.weight <= 14 or p.group == "single"]
    else:
        ps = [p for p in ps if p.weight <= 60 or p.group == "single" or p.group.startswith("stream")]
    return ps


def all_programs(tier, seed):
    ps = []
    a, i = singles(tier, seed, 0)
    ps += a
    a, i = pair_programs(tier, seed, i)
    ps += a
    a, i = sampled_chains(tier, seed, i, 24 if tier == "quick" else 120)
    ps += a
    a, i = macro_variants(tier, seed, i, 20 if tier == "quick" else 80)
    ps += a
    amacros = ["join_async", "try_join_async", "join_async_spawn", "try_join_async_spawn", "async_spawn", "try_async_spawn"]
    nf = 12 if tier == "quick" else 48
    for k in range(nf):
        i += 1
        ps.append(future_program("p%04d" % i, amacros[k % len(amacros)], seed, 1 + k % (3 if tier == "quick" else 4)))
    a, i = stream_programs(tier, seed, i)
    ps += a
    a, i = block_programs(tier, seed, i)
    ps += a
    a, i = initial_shape_programs(tier, seed, 4000)
    ps += a
    return ps


def generate(tier, seed):
    return pack("c01", programs(tier, seed), 8)


META = dict(
    level="translation_validation",
    rule="programs: every operator alone on every input type it types on; every typeable ordered pair of operators (quick: a seed-chosen third); seed-sampled chains of 3-6 operators; "
         "every typeable ordered pair of operand-carrying operators with all operands (every second program: and the initial value) written as { .. } blocks (quick: a third); "
         "chains under try_join!/join_spawn!/try_join_spawn!/spawn!/try_spawn! as only branch and as second branch; future-level operator chains over ready(..) under the six async names. "
         "Each program is compared with the documented method chain on the same symbolic input (values, iterator elements, thresholds) including the callback trace; packed 8 per query; "
         "disagreements_checked = programs whose query was discharged; distinct = distinct invocation texts",
    functions_encoded=["expansions of join! and the other macro names over all 22 operators (DEFAULT_GROUP_DETERMINERS, ActionGroup::parse_action_expr, ProcessExpr/ErrExpr ToTokens, expand_process_expr)"],
    bounds=["iterators of 3 symbolic elements for single operators; 2 (quick) / 3 (thorough) for pairs, chains and macro variants; operand iterators 2", "chains <= 2 exhaustive, <= 6 sampled", "unwind 12 (Vec equality / iterator loops)", "async: future-level operators over ready futures, at most one and_then / or_else per chain of three or more operators"],
    outside=["longer iterators/chains", "operand expressions outside the generated shapes (see C14)", "stream-level operators in async macros beyond the thorough tier's one/two-element programs", "operators of the `full` feature (not enabled by `join`)"],
    assumptions=["reference renderings of DESIGN.md Appendix A", "thread model of DESIGN.md 2.2 for the spawn names"],
)
