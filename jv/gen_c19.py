"""C19 - no hidden costs: no allocation, no Clone, no Send / 'static unless spawning.

* Allocation: harnesses run with `-Z stubbing`; `std::alloc::{alloc, alloc_zeroed, realloc}` are replaced by counting
  wrappers.  For every input, the counter is 0 after join!/try_join! programs whose user code does not allocate
  (profile programs, non-allocating operator chains, wrapper programs).  A twin whose user code does allocate must count
  1 (guards against a dead stub).
* Bounds: programs whose branches carry move-only !Send/!Sync values and borrow (also mutably) from the caller's stack
  under the non-spawning names must build (a new Clone / Send / 'static bound is a build-stage violation) and compute
  the documented values.
"""
from .driver import Program, pack
from .dsl import *
from .gen_c01 import build
from . import gen_c02
from .pp import PP, H_EV
from .profiles import rng, KINDS, profiles

STUBS = (("std::alloc::alloc", "crate::rt::counted_alloc"), ("std::alloc::alloc_zeroed", "crate::rt::counted_alloc_zeroed"), ("std::alloc::realloc", "crate::rt::counted_realloc"))
NOALLOC_OPS = ["|>", "=>", "?>", "..", ">.", "->", "<|", "<=", "!>", ">@>", "?|>@", "?|>", "|n>", "^^>", "^@", "?^@", "?@", ">^>", "??"]


def alloc_profile(pid, macro, profile, idx, seed):
    is_async, is_try, is_spawn = KINDS[macro]
    carrier = "res" if is_try else ["raw", "opt"][idx % 2]
    styles = {}
    for b, d in enumerate(profile):
        for s in range(1, d):
            if carrier != "raw":
                styles[(b, s)] = ["and_then", "map", "then"][(idx + b + s) % 3]
    handler = [None, ("map" if is_try else "then")][idx % 2]
    captures = {(b, s) for b, d in enumerate(profile) for s in range(1, d) if (b + s + idx) % 2}
    pp = PP(macro, profile, carrier=carrier, can_fail=is_try, styles=styles, handler=handler, captures=captures, lets={0: "let"} if idx % 3 == 0 else None)
    text = pp.text()
    L = [pp.decls(), "let r = %s;" % text]
    L.append("vassert!(allocs() == 0, \"C19[%s]: the sequential macro performs no heap allocation of its own\");" % pid)
    if is_try:
        L.append("vassert!(r == %s, \"C19[%s]: value\");" % (pp.first_failure_spec(), pid))
    else:
        L.append("vassert!(r == %s, \"C19[%s]: value\");" % (pp.expected_success(), pid))
    L.append("vcover!(true, \"end reached\");")
    return Program(pid, text, "    " + "\n    ".join(L), desc=dict(macro=macro, profile=list(profile), carrier=carrier, handler=handler), group="alloc/profile", role=dict(kind=macro),
                   stubs=STUBS, unwind=64, weight=1)


def alloc_chain(pid, macro, seed, length):
    ctx = Ctx(rng(seed, pid), itlen=2)
    t = ctx.rnd.choice([OPT(U8), RES(U8), IT(U8), OPT(OPT(U8)), IT(OPT(U8)), IT(PAIR(U8, U8)), U8, PAIR(U8, U8)])
    inp = ctx.value(t)
    chain, out = random_chain(ctx, t, length, allowed=NOALLOC_OPS)
    if not chain:
        return None
    if KINDS[macro][1] and out[0] not in ("opt", "res"):
        macro = "join"
    for st in chain[1:]:
        if ctx.rnd.random() < 0.3 and macro == "join":
            st.deferred = True
    if has_iter(out):
        # consume lazily produced iterators without allocating
        st = op_fold(ctx, out)
        chain.append(st)
        out = st.out
    prog = build(pid, macro, ctx, inp, chain, out, group="alloc/chain", prop="C19")
    lines = prog.body.splitlines()
    # the allocation claim is about the macro side only: assert right after it
    k = next(i for i, l in enumerate(lines) if l.strip().startswith("let m = "))
    lines.insert(k + 1, "    vassert!(allocs() == 0, \"C19[%s]: the sequential macro performs no heap allocation of its own\");" % pid)
    prog.body = "\n".join(lines)
    prog.stubs = STUBS
    return prog


def alloc_singles(tier, seed, start):
    """every non-allocating operator alone on every input type it types on, instantly and as the first operator of a later step, every callback
    capturing a symbolic scalar (so that a boxed callback would be a real allocation): zero allocations by the macro"""
    from .gen_c01 import typeable_inputs
    from .dsl import OPS
    ps = []
    i = start
    for nm in NOALLOC_OPS:
        for t in typeable_inputs(nm, None):
            for deferred in (False, True):
                i += 1
                if tier == "quick" and (i + seed) % 3 and nm != "??":
                    continue
                pid = "p%04d" % i
                ctx = Ctx(rng(seed, pid), itlen=2)
                inp = ctx.value(t)
                st = OPS[nm](ctx, t)
                if st is None or "Vec<" in inp or "Vec<" in st.mac:
                    continue        # (a Vec built or named by the USER's expressions is the user's allocation)
                st.deferred = deferred
                chain, out = [st], st.out
                if has_iter(out):
                    f_ = op_fold(ctx, out)
                    chain.append(f_)
                    out = f_.out
                prog = build(pid, "join", ctx, inp, chain, out, group="alloc/single", prop="C19")
                lines = prog.body.splitlines()
                k = next(j for j, l in enumerate(lines) if l.strip().startswith("let m = "))
                lines.insert(k + 1, "    vassert!(allocs() == 0, \"C19[%s]: the sequential macro performs no heap allocation of its own\");" % pid)
                prog.body = "\n".join(lines)
                prog.stubs = STUBS
                ps.append(prog)
    return ps, i


def witness(pid):
    L = ["let x = u();",
         "let r = join! { x -> |v: u8| Box::new(v), x };",
         "vassert!(allocs() == 1 && *r.0 == x, \"C19[%s]: the allocation counter sees a user allocation (stub is alive)\");" % pid,
         "let v: Vec<u8> = join! { [x, x].into_iter() =>[] Vec<u8> };",
         "vassert!(allocs() == 2 && v.len() == 2, \"C19[%s]: the allocation counter sees Vec growth\");" % pid,
         "vcover!(true, \"end reached\");"]
    return Program(pid, "join! { x -> |v: u8| Box::new(v), x }  /  join! { [x, x].into_iter() =>[] Vec<u8> }", "    " + "\n    ".join(L), desc=dict(purpose="positive witness for the allocation stubs"),
                   group="alloc/witness", role=dict(kind="join"), stubs=STUBS, solo=True, unwind=12, weight=2)


def borrow(pid, macro, variant):
    """move-only, !Send, borrowing programs under the non-spawning names"""
    is_async, is_try, _ = KINDS[macro]
    L = ["let mut x = u(); let x0 = x; let k = u(); let y = u(); let t = nosend(y); let mut z = u(); let z0 = z;"]
    # (references are created outside the macro: the async macros are `async move` blocks, which would copy a Copy local)
    if not is_async and not is_try:
        text = ("%s! {\n        rx ~-> |r: &mut u8| { *r ^= k; *r = r.wrapping_add(1); *r },\n        t -> |t: NoSend| t ~-> |t: NoSend| (t, 5u8),\n"
                "        rk ~-> |r: &u8| *r ^ 1,\n        let zz = (&mut z) ~-> { let kk = &k; move |r: &mut u8| { *r ^= *kk; 0u8 } }\n    }" % macro)
        L.append("let r = { let rx = &mut x; let rk = &k; %s };" % text)
        L.append("vassert!(r.0 == (x0 ^ k).wrapping_add(1) && (r.1).0 == nosend(y) && (r.1).1 == 5 && r.2 == k ^ 1 && r.3 == 0, \"C19[%s]: values over move-only / borrowed data\");" % pid)
        L.append("vassert!(x == (x0 ^ k).wrapping_add(1) && z == z0 ^ k, \"C19[%s]: mutable borrows of the caller's stack took effect\");" % pid)
    elif not is_async and is_try:
        text = ("%s! {\n        Some(rx) ~|> |r: &mut u8| { *r ^= k; *r = r.wrapping_add(1); *r },\n        Some(t) ~=> |t: NoSend| Some((t, 5u8)),\n"
                "        Some(rk) ~|> |r: &u8| *r ^ 1,\n        map => |a: u8, b: (NoSend, u8), c: u8| (a, b, c)\n    }" % macro)
        L.append("let r = { let rx = &mut x; let rk = &k; %s };" % text)
        L.append("vassert!(r == Some(((x0 ^ k).wrapping_add(1), (nosend(y), 5u8), k ^ 1)), \"C19[%s]: values over move-only / borrowed data (try)\");" % pid)
        L.append("vassert!(x == (x0 ^ k).wrapping_add(1), \"C19[%s]: mutable borrow took effect\");" % pid)
    elif is_async and variant == 1:
        # unequal depths: the move-only !Send value travels through a step in which its branch is the ONLY active one (awaited directly, not joined)
        if not is_try:
            text = ("%s! {\n        ready(rx) ~|> |r: &mut u8| { *r ^= k; *r = r.wrapping_add(1); *r },\n        ready(t) ~|> |t: NoSend| (t, 5u8) ~|> |p: (NoSend, u8)| (p.0, p.1 ^ 1),\n"
                    "        ready(rk)\n    }" % macro)
            exp = "Poll::Ready(((x0 ^ k).wrapping_add(1), (nosend(y), 4u8), &k))"
        else:
            text = ("%s! {\n        ready(Ok::<_, u8>(rx)) ~|> |r: Result<&mut u8, u8>| r.map(|r| { *r ^= k; *r = r.wrapping_add(1); *r }),\n"
                    "        ready(Ok::<_, u8>(t)) ~|> |t: Result<NoSend, u8>| t.map(|t| (t, 5u8)) ~|> |p: Result<(NoSend, u8), u8>| p.map(|p| (p.0, p.1 ^ 1)),\n        ready(Ok::<_, u8>(rk))\n    }" % macro)
            exp = "Poll::Ready(Ok(((x0 ^ k).wrapping_add(1), (nosend(y), 4u8), &k)))"
        L.append("let r = { let rx = &mut x; let rk = &k; let mut f = %s; poll_once(&mut f) };" % text)
        L.append("vassert!(r == %s, \"C19[%s]: a move-only !Send value in a step with a single active branch of an async macro (no Send / 'static needed)\");" % (exp, pid))
        L.append("vassert!(x == (x0 ^ k).wrapping_add(1), \"C19[%s]: mutable borrow took effect\");" % pid)
    elif is_async and not is_try:
        text = ("%s! {\n        ready(rx) ~|> |r: &mut u8| { *r ^= k; *r = r.wrapping_add(1); *r },\n        ready(t) ~|> |t: NoSend| (t, 5u8),\n"
                "        ready(rk) ~|> |r: &u8| *r ^ 1\n    }" % macro)
        L.append("let r = { let rx = &mut x; let rk = &k; let mut f = %s; poll_once(&mut f) };" % text)
        L.append("vassert!(r == Poll::Ready(((x0 ^ k).wrapping_add(1), (nosend(y), 5u8), k ^ 1)), \"C19[%s]: values over move-only / borrowed data (async, no Send / 'static needed)\");" % pid)
        L.append("vassert!(x == (x0 ^ k).wrapping_add(1), \"C19[%s]: mutable borrow took effect\");" % pid)
    else:
        text = ("%s! {\n        ready(Ok::<_, u8>(rx)) ~|> |r: Result<&mut u8, u8>| r.map(|r| { *r ^= k; *r = r.wrapping_add(1); *r }),\n"
                "        ready(Ok::<_, u8>(t)) ~|> |t: Result<NoSend, u8>| t.map(|t| (t, 5u8)),\n        ready(Ok::<_, u8>(rk)) ~|> |r: Result<&u8, u8>| r.map(|r| *r ^ 1)\n    }" % macro)
        L.append("let r = { let rx = &mut x; let rk = &k; let mut f = %s; poll_once(&mut f) };" % text)
        L.append("vassert!(r == Poll::Ready(Ok(((x0 ^ k).wrapping_add(1), (nosend(y), 5u8), k ^ 1))), \"C19[%s]: values over move-only / borrowed data (async try)\");" % pid)
        L.append("vassert!(x == (x0 ^ k).wrapping_add(1), \"C19[%s]: mutable borrow took effect\");" % pid)
    L.append("vcover!(true, \"end reached\");")
    return Program(pid, text, "    " + "\n    ".join(L), desc=dict(macro=macro, values="&mut u8, &u8, move-only !Send struct", depths="unequal (lone tail step)" if variant == 1 else "equal"), group="bounds/" + macro + ("/lone-step" if variant == 1 else ""), role=dict(kind=macro),
                   unwind=12, weight=3, solo=is_async)


def borrow2(pid, macro):
    """more shapes for the bounds claim: `??` (the generic __inspect helper) on borrowed and move-only values, a `let`-named
    move-only branch in a multi-step try macro (its per-step check must not need Clone), a non-Copy value borrowed by the
    closures of two `>>>` wrappers (the wrapper closures must not capture by move), `->` and a handler over borrows"""
    is_async, is_try, _ = KINDS[macro]
    L = ["let mut x = u(); let x0 = x; let k = u(); let y = u(); let big = nosend(k);"]
    if not is_try:
        text = ("%s! {\n        rx ?? |r: &&mut u8| { eva(1, **r); } ~-> |r: &mut u8| { *r ^= 1; *r },\n"
                "        let named = nosend(y) ?? |t: &NoSend| { eva(2, t.0); } ~-> |t: NoSend| t,\n"
                "        Some(Some(y)) |> >>> |> |v: u8| v ^ big.0 <<< ~|> >>> |> |v: u8| v.wrapping_add(big.0),\n"
                "        Some(Some(x0)) |> >>> ?? |o: &Option<u8>| { eva(3, o.obs()); } |> |v: u8| v ^ big.0,\n"
                "        then => |a: u8, b: NoSend, c: Option<Option<u8>>, d: Option<Option<u8>>| (a, b, c, d)\n    }" % macro)
        L.append("let r = { let rx = &mut x; %s };" % text)
        L.append("vassert!(r == (x0 ^ 1, nosend(y), Some(Some((y ^ k).wrapping_add(k))), Some(Some(x0 ^ k))), \"C19[%s]: values over borrowed / move-only data with ??, wrappers sharing a non-Copy value, named branch, handler\");" % pid)
        L.append("vassert!(x == x0 ^ 1 && arg(1) == x0 && arg(2) == y && big == nosend(k), \"C19[%s]: borrows took effect, inspect callbacks saw the values, the shared value is still owned by the caller\");" % pid)
    else:
        text = ("%s! {\n        Some(rx) ?? |r: &Option<&mut u8>| { eva(1, 7); } ~|> |r: &mut u8| { *r ^= 1; *r },\n"
                "        let named = Some(nosend(y)) ?? |t: &Option<NoSend>| { eva(2, t.as_ref().map(|t| t.0).unwrap_or(0)); } ~|> |t: NoSend| t ~|> |t: NoSend| (t, 5u8),\n"
                "        Some(Some(y)) => >>> |> |v: u8| v ^ big.0 <<< ~=> >>> -> |v: u8| Some(v.wrapping_add(big.0)),\n"
                "        map => |a: u8, b: (NoSend, u8), c: u8| (a, b, c)\n    }" % macro)
        L.append("let r = { let rx = &mut x; %s };" % text)
        L.append("vassert!(r == Some((x0 ^ 1, (nosend(y), 5u8), (y ^ k).wrapping_add(k))), \"C19[%s]: values over borrowed / move-only data (try, named multi-step move-only branch)\");" % pid)
        L.append("vassert!(x == x0 ^ 1 && arg(2) == y && big == nosend(k), \"C19[%s]: borrows took effect; the shared value is still owned by the caller\");" % pid)
    L.append("vcover!(true, \"end reached\");")
    return Program(pid, text, "    " + "\n    ".join(L), desc=dict(macro=macro, values="&mut u8 under ??, named move-only !Send struct, non-Copy value borrowed by two wrappers"), group="bounds2/" + macro,
                   role=dict(kind=macro), unwind=12, weight=3)


def programs(tier, seed):
    ps = programs_main(tier, seed)
    i = 800
    for macro in ("join", "try_join"):
        i += 1
        ps.append(borrow2("p%04d" % i, macro))
    a, i = alloc_singles(tier, seed, 1000)
    ps += [p_ for p_ in a if not (tier == "quick" and p_.weight > 14)]
    return ps


def programs_main(tier, seed):
    ps = []
    i = 0
    profs = profiles(3, 3) if tier == "thorough" else [pr for pr in profiles(3, 3) if sum(pr) <= 6]
    for macro in ("join", "try_join"):
        for prof in profs:
            i += 1
            if tier == "quick" and (i + seed) % 2:
                continue
            ps.append(alloc_profile("p%04d" % i, macro, prof, i, seed))
    for k in range(24 if tier == "quick" else 120):
        i += 1
        pr = alloc_chain("p%04d" % i, ["join", "try_join"][k % 2], seed, 1 + k % 5)
        if pr is not None and not (tier == "quick" and pr.weight > 14):
            ps.append(pr)
    i += 1
    ps.append(witness("p%04d" % i))
    for macro in ("join", "try_join", "join_async", "try_join_async"):
        i += 1
        ps.append(borrow("p%04d" % i, macro, 0))
    for macro in ("join_async", "try_join_async"):
        i += 1
        ps.append(borrow("p%04d" % i, macro, 1))
    return ps


def generate(tier, seed):
    return pack("c19", programs(tier, seed), 8)


META = dict(
    level="model_checking",
    rule="allocation: profile programs (join!/try_join!, profiles <= 3x3; quick: <= 6 positions, every second) and seed-sampled non-allocating operator chains of 1-5 operators, each asserting "
         "the counting stub of std::alloc::{alloc, alloc_zeroed, realloc} is 0 right after the macro for ALL inputs, plus one positive witness (Box::new / Vec growth counted); bounds: one program per "
         "non-spawning macro kind over &mut / & borrows of the caller's stack and a move-only !Send !Sync struct, multi-step, with `let` name, block capture and handler. Packed 8 per query; "
         "non-trivial = passed; distinct = distinct invocation texts",
    functions_encoded=["expansions of join!, try_join! (allocation claim) and of join!, try_join!, join_async!, try_join_async! (bounds claim)"],
    bounds=["profiles <= 3x3, chains <= 5 operators, iterators of 2 elements", "allocation = calls of the global allocation entry points reachable from the harness (Kani stubbing)"],
    outside=["allocations of the async macros (Box::pin is documented behaviour)", "stack usage"],
    assumptions=["kani::stub of std::alloc::{alloc, alloc_zeroed, realloc} intercepts every heap allocation of safe Rust code in the harness"],
)
