"""C14 - branches split only at top-level operators that follow a complete operand (translation validation, partial).

The parser cannot be executed symbolically (DESIGN.md 1.1).  What is decided is the consequence the user relies on:
programs whose operands contain operator look-alikes still mean the documented chain, for all inputs.
Catalogue: closure with return type (`->` inside an incomplete operand), turbofish with commas, generic `>>`,
qualified paths, look-alikes inside (), [], {}, match arms, nested join! calls, string/char literals with operator
text, shifts / ranges / or-patterns; overlapping operator families adjacent to each other; `~` and `>>>` flags on
the following operator; commas and handlers directly after operand-less operators.
"""
import random

from .driver import Program, pack
from .dsl import *
from .gen_c01 import build
from .profiles import rng, KINDS

LIT = '"|> => ~ <<< >>> -> ?? , ?|>@ <-> =>[]"'

# operand shapes by closure signature; {K} = fresh symbolic threshold
SHAPES = {
    "u8->u8": [
        ("ret-type", "move |v: u8| -> u8 { v ^ {K} }"),
        ("turbofish-comma", "conv2::<u8, u8>"),
        ("paren-shift-or", "(move |v: u8| ((v >> 1) | (v << 2)) ^ {K})"),
        ("match-arms", "move |v: u8| match v { 0 => {K}, 1 | 2 => 7, _ => v ^ 1 }"),
        ("index-brackets", "move |v: u8| [v, {K}][(v > {K2}) as usize]"),
        ("nested-join", "move |v: u8| join! { v -> move |x: u8| x ^ {K} }"),
        ("literals", "move |v: u8| if " + LIT + ".len() > 3 && '>' != '~' { v ^ {K} } else { 0 }"),
        ("block-le", "{ let kk = {K}; move |v: u8| -> u8 { if v <= kk { v } else { kk } } }"),
        ("range-len", "move |v: u8| (0..3u8).len() as u8 ^ v ^ {K}"),
        ("qualified-path", "<u8 as core::convert::Into<u8>>::into"),
        ("leading-colons", "::core::convert::identity::<u8>"),
        ("generic-shr", "move |v: u8| core::option::Option::<core::option::Option<u8>>::Some(Some(v)).flatten().unwrap_or({K}) ^ 1"),
        ("try-op", "move |v: u8| -> u8 { (move || -> Option<u8> { Some(Some(Some(v ^ {K}))??) })().unwrap_or(0) }"),
        ("closure-in-closure", "move |v: u8| (move |a: u8| move |b: u8| a ^ b)(v)({K})"),
    ],
    "&u8->bool": [
        ("ret-type", "move |v: &u8| -> bool { *v > {K} }"),
        ("paren-or", "(move |v: &u8| (*v > {K}) | (*v == 3))"),
        ("matches-or-pattern", "move |v: &u8| matches!(*v, 1 | 2) || *v > {K}"),
        ("literals", "move |v: &u8| " + LIT + ".len() > 3 && *v >= {K}"),
        ("generic-call", "move |v: &u8| conv2::<u8, u16>(*v) > conv2::<u8, u16>({K})"),
        ("le-ge", "move |v: &u8| { *v <= {K} || *v >= 250 }"),
    ],
    "u8->opt": [
        ("ret-type", "move |v: u8| -> Option<u8> { mo(v > {K}, v ^ 1) }"),
        ("turbofish-path", "Some::<u8>"),
        ("match-arms", "move |v: u8| match v { 0 => None, x => Some(x ^ {K}) }"),
        ("method-generic", "move |v: u8| v.checked_add({K}).and_then::<u8, fn(u8) -> Option<u8>>(Some::<u8>)"),
        ("nested-try-join", "move |v: u8| try_join! { mo(v > {K}, v) |> move |x: u8| x ^ 1 }"),
    ],
    "u8->res": [
        ("ret-type", "move |v: u8| -> Result<u8, u8> { mk(v > {K}, v ^ 1) }"),
        ("turbofish-comma-path", "Ok::<u8, u8>"),
        ("match-arms", "move |v: u8| match v { 0 => Err({K}), x => Ok::<u8, u8>(x) }"),
    ],
    "err->res": [
        ("ret-type", "move |e: u8| -> Result<u8, u8> { mk(e > {K}, e ^ 1) }"),
        ("turbofish-comma-path", "Err::<u8, u8>"),
    ],
    "()->opt": [
        ("ret-type", "move || -> Option<u8> { mo({F}, {K}) }"),
        ("empty-pipes-block", "{ let kk = {K}; move || Some::<u8>(kk) }"),
    ],
    "fold": [
        ("ret-type", "move |a: u8, v: u8| -> u8 { a ^ v.wrapping_add({K}) }"),
        ("path", "u8::wrapping_add"),
        ("turbofish-3", "fold3::<u8, u8, u8>"),
        ("tuple-pattern-ish", "move |a: u8, v: u8| [a, v][(a > v) as usize] ^ {K}"),
    ],
    "tryfold": [
        ("ret-type", "move |a: u8, v: u8| -> Option<u8> { mo(v != {K}, a ^ v) }"),
        ("path", "u8::checked_add"),
    ],
    "&T->()": [
        ("ret-type", "move |v: &{T}| -> () { call({ID}, v.obs()); }"),
        ("literals", "move |v: &{T}| { if " + LIT + ".len() > 0 { call({ID}, v.obs()); } }"),
    ],
    "init": [
        ("turbofish-comma-call", "conv2::<u8, u8>({K})"),
        ("tuple-field", "({K}, 1u8).0"),
        ("index", "[{K}, 2u8][0]"),
        ("block", "{ let z = {K}; z }"),
        ("generic-shr", "Option::<Option<u8>>::Some(Some({K})).flatten().unwrap_or(0)"),
    ],
    "iter": [
        ("array", "[{K}, {K2}].into_iter()"),
        ("range-paren", "({K}..{K}.saturating_add(1)).take(1)"),
        ("turbofish-collect", "[{K}, {K2}].into_iter().collect::<Vec<u8>>().into_iter()"),
        ("once", "core::iter::once::<u8>({K})"),
    ],
    "value-opt": [
        ("turbofish", "Some::<u8>({K})"),
        ("if-else", "if {F} { Some({K}) } else { None }"),
        ("nested-join", "try_join! { mo({F}, {K}) }"),
        ("generic-shr", "Option::<Option<u8>>::Some(mo({F}, {K})).flatten()"),
    ],
    "value-res": [
        ("turbofish-comma", "Ok::<u8, u8>({K})"),
        ("if-else", "if {F} { Ok({K}) } else { Err({K2}) }"),
    ],
}

# operator -> [(input type, signature, method template, output type)]
SITES = [
    ("|>", OPT(U8), "u8->u8", "map", OPT(U8)), ("|>", IT(U8), "u8->u8", "map", IT(U8)), ("|>", RES(U8), "u8->u8", "map", RES(U8)),
    ("=>", OPT(U8), "u8->opt", "and_then", OPT(U8)), ("=>", RES(U8), "u8->res", "and_then", RES(U8)),
    ("?>", OPT(U8), "&u8->bool", "filter", OPT(U8)), ("?>", IT(U8), "&u8->bool", "filter", IT(U8)),
    ("->", U8, "u8->u8", None, U8), ("->", U8, "u8->opt", None, OPT(U8)),
    ("<|", OPT(U8), "value-opt", "or", OPT(U8)), ("<|", RES(U8), "value-res", "or", RES(U8)),
    ("<=", OPT(U8), "()->opt", "or_else", OPT(U8)), ("<=", RES(U8), "err->res", "or_else", RES(U8)),
    ("!>", RES(U8), "u8->u8", "map_err", RES(U8)),
    (">@>", IT(U8), "iter", "chain", IT(U8)), (">^>", IT(U8), "iter", "zip", IT(PAIR(U8, U8))),
    ("?|>@", IT(U8), "u8->opt", "find_map", OPT(U8)), ("?|>", IT(U8), "u8->opt", "filter_map", IT(U8)),
    ("?&!>", IT(U8), "&u8->bool", "partition", None),
    ("?@", IT(U8), "&u8->bool", "find", OPT(U8)),
    ("??", OPT(U8), "&T->()", "inspect", OPT(U8)), ("??", U8, "&T->()", "inspect", U8),
    ("^@", IT(U8), "fold", "fold", U8), ("?^@", IT(U8), "tryfold", "try_fold", OPT(U8)),
]


def fill(ctx, text, t=None):
    ids = []
    while "{K2}" in text:
        text = text.replace("{K2}", ctx.k(), 1)
    while "{K}" in text:
        text = text.replace("{K}", ctx.k(), 1)
    while "{F}" in text:
        text = text.replace("{F}", ctx.f(), 1)
    if "{T}" in text:
        text = text.replace("{T}", ty(t))
    while "{ID}" in text:
        i = ctx.cid()
        ids.append(i)
        text = text.replace("{ID}", str(i), 1)
    return text, ids


def site_step(ctx, op, t, sig, method, out, shape_text):
    operand, ids = fill(ctx, shape_text, t)
    if op == "->":
        return Step(op, "-> " + operand, lambda b: "(%s)(%s)" % (operand, b), out, ids=ids)
    if op == "??":
        return Step(op, "?? " + operand, lambda b: "{ let x = %s; (%s)(&x); x }" % (b, operand), out, ids=ids)
    if op == "?&!>":
        c2, i2 = cl(ctx, "v: (Vec<u8>, Vec<u8>)", "v", "v.0.obs() ^ v.1.obs()")
        return Step(op, "?&!> %s -> %s" % (operand, c2), lambda b: "(%s)(%s.partition(%s))" % (c2, b, operand), PAIR(VEC(U8), VEC(U8)), ids=ids + [i2])
    if op in ("^@", "?^@"):
        init, _ = fill(ctx, ctx.rnd.choice(SHAPES["init"])[1])
        return Step(op, "%s %s, %s" % (op, init, operand), lambda b: "%s.%s(%s, %s)" % (b, method, init, operand), out, ids=ids)
    return Step(op, "%s %s" % (op, operand), lambda b: "%s.%s(%s)" % (b, method, operand), out, ids=ids)


FOLLOW = {   # overlapping operator families: what directly follows the adversarial operand
    "opt": ["..", "|>", "=>", "<|", "<=", "??", "?>", "->"],
    "res": ["..", "|>", "=>", "<|", "<=", "!>", "??", "->"],
    "it": ["?|>@", "?|>", "=>[]", "|n>", ">@>", ">^>", "?@", "^@", "?^@", "?>", "|>", ".."],
    "u8": ["->", "..", "??"],
    "pair": ["->", "..", "??"],
}


def adversarial(tier, seed, start):
    ps = []
    i = start
    for op, t, sig, method, out in SITES:
        for sname, stext in SHAPES[sig]:
            i += 1
            pid = "p%04d" % i
            ctx = Ctx(rng(seed, pid), itlen=2 if tier == "quick" else 3)
            inp = ctx.value(t)
            st = site_step(ctx, op, t, sig, method, out, stext)
            chain = [st]
            cur = st.out
            # follow with an operator of an overlapping family, sometimes flagged with ~
            names = list(FOLLOW.get(cur[0], ["->"]))
            ctx.rnd.shuffle(names)
            for nm in names:
                nxt = OPS[nm](ctx, cur)
                if nxt is not None:
                    if ctx.rnd.random() < 0.4:
                        nxt.deferred = True
                    chain.append(nxt)
                    cur = nxt.out
                    break
            macro = "join"
            if ctx.rnd.random() < 0.25 and cur[0] in ("opt", "res") and not any(s.deferred for s in chain):
                macro = "try_join"
            prog = build(pid, macro, ctx, inp, chain, cur, group="operand %s" % sname, extra_desc=dict(operator=op, operand_shape=sname))
            if tier == "quick" and prog.weight > 14:
                continue
            ps.append(prog)
    return ps, i


def critical_followers(tier, seed, start):
    """Operands with a top-level look-alike inside a NOT YET COMPLETE operand (closure return type `->`, `fn(..) -> ..` in a
    turbofish) followed by EACH member of the order-sensitive overlapping families (`=>[]` typed / untyped vs `=>`,
    `?|>@` vs `?|>`): a rejected look-alike must not change which of two overlapping operators is recognised next."""
    ps = []
    i = start
    crit = ["=>[]", "=>[]u", "?|>@", "?|>", "=>", "<|", "<=", "<->", ".."]
    for op, t, sig, method, out in SITES:
        if out is None:
            continue
        for sname, stext in SHAPES[sig]:
            if sname not in ("ret-type", "method-generic", "try-op", "block-le", "turbofish-comma", "qualified-path", "generic-shr"):
                continue
            for nm in crit:
                probe = Ctx(random.Random(7))
                if OPS[nm](probe, out) is None:
                    continue
                i += 1
                if tier == "quick" and sname != "ret-type" and (i + seed) % 3:
                    continue
                pid = "p%04d" % i
                ctx = Ctx(rng(seed, pid), itlen=2)
                inp = ctx.value(t)
                st = site_step(ctx, op, t, sig, method, out, stext)
                nxt = None
                for _ in range(6):
                    nxt = OPS[nm](ctx, st.out)
                    if nxt is not None:
                        break
                if nxt is None:
                    continue
                prog = build(pid, "join", ctx, inp, [st, nxt], nxt.out, group="critical %s" % sname, extra_desc=dict(operator=op, operand_shape=sname, follower=nm))
                if tier == "quick" and prog.weight > 14:
                    continue
                ps.append(prog)
    return ps, i


def flag_programs(tier, seed, start, prop="C14", only_ops=None):
    """`~` attaches to exactly the operator it precedes - for EVERY operator, also the operand-less ones.  Two branches:
    branch 0 is `INPUT [~]X operands -> tapb`, branch 1 logs A in the other step.  With `~X` the operator (and the tapb after it)
    belongs to step 1, so B must come after A (A = step 0 of branch 1); without `~` it belongs to step 0 and branch 1's `~-> tapa`
    comes after it.  The value must equal the documented chain in both cases."""
    ps = []
    i = start
    for nm in OP_NAMES:
        if only_ops is not None and nm not in only_ops:
            continue
        for t in INPUT_TYPES:
            probe = Ctx(random.Random(3))
            st0 = OPS[nm](probe, t)
            if st0 is None:
                continue
            for deferred in (True, False):
                i += 1
                pid = "p%04d" % i
                ctx = Ctx(rng(seed, pid), itlen=2)
                inp = ctx.value(t)
                st = None
                for _ in range(6):
                    st = OPS[nm](ctx, t)
                    if st is not None:
                        break
                if st is None:
                    continue
                cmpf = finish(st.out)
                kb = ctx.k()
                if deferred:
                    text = "join! { %s ~%s -> tapb, %s -> tapa }" % (inp, st.mac, kb)
                    order = "first(140) < first(141)"
                    what = "`~X` belongs to the next step: it runs after the other branch finished the previous step"
                else:
                    text = "join! { %s %s -> tapb, %s ~-> tapa }" % (inp, st.mac, kb)
                    order = "first(141) < first(140)"
                    what = "an operator without `~` belongs to the current step"
                L = list(ctx.decls)
                L.append("let m = %s;" % text)
                L.append("vassert!(cnt(140) == 1 && cnt(141) == 1 && %s, \"%s[%s]: %s\");" % (order, prop, pid, what))
                L.append("reset_calls();")
                L.append("let r = %s;" % st.ref(inp))
                L.append("vassert!(%s && m.1 == %s, \"%s[%s]: value == documented chain\");" % (cmpf("m.0", "r"), kb, prop, pid))
                L.append("vcover!(true, \"end reached\");")
                w = 1 + (40 if nm == "?&!>" else 0) + (4 if t[0] == "it" else 0)
                prog = Program(pid, text, "    " + "\n    ".join(L), desc=dict(operator=nm, deferred=deferred, input_type=str(t)), group="flags", role=dict(kind="join"), unwind=44 if "usize" in str(st.out) and "vec" in str(st.out) else 12, weight=w)
                if tier == "quick" and w > 14:
                    continue
                ps.append(prog)
            break   # one input type per operator is enough here (the flag logic does not depend on types)
    return ps, i


def wrapper_flag_programs(tier, seed, start, prop="C14"):
    """`~` and `>>>` on the SAME operator: `~X >>> inner <<< -> tapb` puts the whole wrapper (and what follows) into the next step,
    `X >>> inner <<< -> tapb` leaves it in the current one - for each of the ten wrapper-capable operators, with explicit and implicit closing"""
    from . import gen_c02
    ps = []
    i = start
    for tok, inputs in gen_c02.WRAPPER_INPUTS.items():
        t = inputs[-1] if tok in ("?>", "?|>", "?@", "?&!>") else inputs[0]
        for deferred in (True, False):
            for explicit in (True, False):
                i += 1
                pid = "p%04d" % i
                ctx = Ctx(rng(seed, pid), itlen=2)
                inp = ctx.value(t)
                w = gen_c02.make_wrapper(ctx, t, 1, "one", explicit=explicit, want=tok)
                if w is None:
                    continue
                w.deferred = deferred
                mac = gen_c02.render_mac2([w])
                cmpf = finish(w.out)
                kb = ctx.k()
                # (an implicitly closed wrapper ends at the step boundary: the tap after it is written with `~` and lands one step later)
                tap = "-> tapb" if explicit else "~-> tapb"
                if deferred:
                    text = "join! { %s %s %s, %s -> tapa }" % (inp, mac, tap, kb)
                    order = "first(140) < first(141)"
                    what = "`~X >>>` belongs to the next step: the wrapper runs after the other branch finished the previous step"
                elif explicit:
                    text = "join! { %s %s %s, %s ~-> tapa }" % (inp, mac, tap, kb)
                    order = "first(141) < first(140)"
                    what = "`X >>>` without `~` belongs to the current step"
                else:
                    continue
                L = list(ctx.decls)
                L.append("let m = %s;" % text)
                L.append("vassert!(cnt(140) == 1 && cnt(141) == 1 && %s, \"%s[%s]: %s\");" % (order, prop, pid, what))
                L.append("reset_calls();")
                L.append("let r = %s;" % w.ref(inp))
                L.append("vassert!(%s && m.1 == %s, \"%s[%s]: value == documented chain\");" % (cmpf("m.0", "r"), kb, prop, pid))
                L.append("vcover!(true, \"end reached\");")
                wt = 1 + (40 if tok == "?&!>" else 0) + (4 if t[0] == "it" else 0)
                if tier == "quick" and wt > 14:
                    continue
                ps.append(Program(pid, text, "    " + "\n    ".join(L), desc=dict(wrapper=tok, deferred=deferred, explicit_close=explicit, input_type=str(t)),
                                  group="flags/wrapper", role=dict(kind="join"), unwind=12, weight=wt))
    return ps, i


def type_operands(tier, seed, start):
    """type operands of `=>[]` and `<->` whose own text contains commas and `>>` at the top level of the operand
    (inside angle brackets, which are not token groups), followed by operators that start with `>` or by a comma"""
    ps = []
    i = start
    cases = [
        ("[(mk({F}, {K}), {K})].into_iter() <-> Result<u8, u8>, u8, Vec<Result<u8, u8>>, Vec<u8>",
         "[(mk({F}, {K}), {K})].into_iter().unzip::<Result<u8, u8>, u8, Vec<Result<u8, u8>>, Vec<u8>>()", ""),
        ("[(mk({F}, {K}), {K})].into_iter() <-> Result<u8, u8>, u8, Vec<Result<u8, u8>>, Vec<u8> >. 0 .. len()",
         "[(mk({F}, {K}), {K})].into_iter().unzip::<Result<u8, u8>, u8, Vec<Result<u8, u8>>, Vec<u8>>().0.len()", ""),
        ("[mk({F}, {K}), mk({F}, {K})].into_iter() =>[] Vec<Result<u8, u8>> >. len()",
         "[mk({F}, {K}), mk({F}, {K})].into_iter().collect::<Vec<Result<u8, u8>>>().len()", ""),
        ("[mk({F}, {K}), mk({F}, {K})].into_iter() =>[] Vec<Result<u8, u8>> .. is_empty()",
         "[mk({F}, {K}), mk({F}, {K})].into_iter().collect::<Vec<Result<u8, u8>>>().is_empty()", ""),
        ("[wrapv({K}), wrapv({K})].into_iter() =>[] Vec<Vec<u8>> >. len()",
         "[wrapv({K}), wrapv({K})].into_iter().collect::<Vec<Vec<u8>>>().len()", ""),
        ("[wrapv({K})].into_iter() =>[] Vec<Vec<u8>> -> move |v: Vec<Vec<u8>>| v.len()",
         "(move |v: Vec<Vec<u8>>| v.len())([wrapv({K})].into_iter().collect::<Vec<Vec<u8>>>())", ""),
        ("[mk({F}, {K})].into_iter() =>[] Vec<Result<u8, u8>>, {K} -> tapa",
         None, "two-branch"),
        ("[({K}, mk({F}, {K}))].into_iter() ~<-> u8, Result<u8, u8>, Vec<u8>, Vec<Result<u8, u8>> ~-> move |v: (Vec<u8>, Vec<Result<u8, u8>>)| v.1",
         "(move |v: (Vec<u8>, Vec<Result<u8, u8>>)| v.1)([({K}, mk({F}, {K}))].into_iter().unzip::<u8, Result<u8, u8>, Vec<u8>, Vec<Result<u8, u8>>>())", ""),
    ]
    import re as _re
    for mtxt, rtxt, kind in cases:
        i += 1
        pid = "p%04d" % i
        ctx = Ctx(rng(seed, pid))
        toks = _re.findall(r"\{K\}|\{F\}", mtxt)
        m, r = mtxt, rtxt
        vals = []
        for tk in toks:
            v = ctx.f() if tk == "{F}" else ctx.k()
            vals.append(v)
            m = m.replace(tk, v, 1)
            if r is not None:
                r = r.replace(tk, v, 1)
        L = list(ctx.decls)
        if kind == "two-branch":
            text = "join! { %s }" % m
            L.append("let m = %s;" % text)
            L.append("vassert!(m.0 == [mk(%s, %s)].into_iter().collect::<Vec<Result<u8, u8>>>() && m.1 == %s && cnt(140) == 1, \"C14[%s]: a comma after a type operand that itself contains a comma separates branches\");" % (vals[0], vals[1], vals[2], pid))
        else:
            text = "join! { %s }" % m
            L.append("let m = %s;" % text)
            L.append("let r = %s;" % r)
            L.append("vassert!(m == r, \"C14[%s]: type operands containing commas / `>>` are taken whole\");" % pid)
        L.append("vcover!(true, \"end reached\");")
        ps.append(Program(pid, text, "    " + "\n    ".join(L), desc=dict(kind="type operands"), group="types", role=dict(kind="join"), unwind=44, weight=4))
    return ps, i


def adjacency(tier, seed, start):
    """overlapping families next to each other, operand-less operators followed by commas / handlers / other operators"""
    ps = []
    i = start
    cases = [
        # (input type, operator names in order)
        (IT(U8), ["?|>@", "=>"]), (IT(U8), ["?|>", "?|>@"]), (IT(U8), ["?|>", "?|>"]), (IT(U8), ["?|>", "=>[]"]),
        (IT(U8), ["=>[]", ".."]), (IT(U8), ["=>[]u", "->"]), (IT(U8), ["|n>", "?|>"]), (IT(U8), ["|n>", "|>"]), (IT(U8), ["|n>", "<->"]),
        (IT(PAIR(U8, U8)), ["<->", "->"]), (IT(PAIR(U8, U8)), ["<->", ".."]), (IT(OPT(U8)), ["^^>", "^@"]), (IT(OPT(U8)), ["^^>", "?^@"]),
        (IT(OPT(U8)), ["^^>", "^^>"]) , (OPT(OPT(U8)), ["^^>", "<|"]), (OPT(OPT(U8)), ["^^>", "<="]), (OPT(U8), ["<|", "<="]), (OPT(U8), ["<=", "<|"]),
        (RES(U8), ["<=", "!>"]), (RES(U8), ["!>", "=>"]), (OPT(U8), ["=>", "=>"]), (OPT(U8), ["??", "?>"]), (OPT(U8), ["?>", "??"]),
        (IT(U8), ["?@", "??"]), (IT(U8), ["?^@", "?>"]), (IT(U8), [">@>", ">^>"]), (IT(U8), [">^>", ">@>"]), (IT(U8), [">^>", "<->"]),
        (OPT(U8), ["..", ".."]), (OPT(U8), [">.", ".."]), (OPT(U8), ["..", ">."]), (IT(U8), ["..", "=>[]"]),
    ]
    for t, names in cases:
        for variant in range(2 if tier == "quick" else 4):
            i += 1
            pid = "p%04d" % i
            ctx = Ctx(rng(seed, pid), itlen=2 if tier == "quick" else 3)
            inp = ctx.value(t)
            chain = []
            cur = t
            ok = True
            for nm in names:
                st = None
                for _ in range(6):
                    st = OPS[nm](ctx, cur)
                    if st is not None:
                        break
                if st is None:
                    ok = False
                    break
                chain.append(st)
                cur = st.out
            if not ok:
                continue
            if variant % 2 == 1:
                chain[-1].deferred = True
            prog = build(pid, "join", ctx, inp, chain, cur, group="adjacent", extra_desc=dict(adjacent=names))
            if tier == "quick" and prog.weight > 14:
                continue
            ps.append(prog)
    return ps, i


def separators(tier, seed, start):
    """commas and handlers directly after operand-less operators and after adversarial operands (multi-branch programs)"""
    ps = []
    i = start
    tails = [
        ("[{K}, {K2}].into_iter() |n>", "[{K}, {K2}].into_iter().enumerate()", "it"),
        ("[mo({F}, {K}), mo({F}, {K2})].into_iter() ^^>", "[mo({F}, {K}), mo({F}, {K2})].into_iter().flatten()", "it"),
        ("[{K}, {K2}].into_iter() =>[] Vec<u8>", "[{K}, {K2}].into_iter().collect::<Vec<u8>>()", "val"),
        ("[({K}, {K2})].into_iter() <-> u8, u8, Vec<u8>, Vec<u8>", "[({K}, {K2})].into_iter().unzip::<u8, u8, Vec<u8>, Vec<u8>>()", "val"),
        ("mo({F}, {K}) |> conv2::<u8, u8>", "mo({F}, {K}).map(conv2::<u8, u8>)", "val"),
        ("mo({F}, {K}) |> move |v: u8| -> u8 { v ^ 1 }", "mo({F}, {K}).map(move |v: u8| -> u8 { v ^ 1 })", "val"),
        ("{K} -> Some::<u8>", "(Some::<u8>)({K})", "val"),
        ("mo({F}, {K}) ^^> ", None, None),
    ]
    tails = [t for t in tails if t[1]]
    for a in range(len(tails)):
        for bidx in range(len(tails)):
            i += 1
            if tier == "quick" and (a * 3 + bidx + seed) % 4 != 0:
                continue
            pid = "p%04d" % i
            ctx = Ctx(rng(seed, pid))
            # the same symbolic scalars must appear in macro and reference text: fill both with one substitution map
            def fill2(m, r):
                subs = {}
                for key in ("{K2}", "{K}", "{F}"):
                    pass
                out_m, out_r = m, r
                import re as _re
                toks = _re.findall(r"\{K2\}|\{K\}|\{F\}", m)
                for tk in toks:
                    v = ctx.f() if tk == "{F}" else ctx.k()
                    out_m = out_m.replace(tk, v, 1)
                    out_r = out_r.replace(tk, v, 1)
                return out_m, out_r
            m1, r1 = fill2(tails[a][0], tails[a][1])
            m2, r2 = fill2(tails[bidx][0], tails[bidx][1])
            with_handler = (a + bidx) % 2 == 0
            def cmpx(kind, m, r):
                return "Iterator::eq(%s, %s)" % (m, r) if kind == "it" else "%s == %s" % (m, r)
            L = list(ctx.decls)
            if with_handler:
                text = "join! { %s, then => move |a, b| (b, a), %s }" % (m1, m2)
                L.append("let m = %s;" % text)
                L.append("vassert!(%s && %s, \"C14[%s]: a handler / comma directly after an operand-less operator or an adversarial operand separates branches\");" % (cmpx(tails[bidx][2], "m.0", r2), cmpx(tails[a][2], "m.1", r1), pid))
            else:
                text = "join! { %s, %s }" % (m1, m2)
                L.append("let m = %s;" % text)
                L.append("vassert!(%s && %s, \"C14[%s]: a comma directly after an operand-less operator or an adversarial operand separates branches\");" % (cmpx(tails[a][2], "m.0", r1), cmpx(tails[bidx][2], "m.1", r2), pid))
            L.append("vcover!(true, \"end reached\");")
            ps.append(Program(pid, text, "    " + "\n    ".join(L), desc=dict(macro="join", branches=[m1, m2], handler_between=with_handler), group="separators",
                              role=dict(kind="join"), unwind=12, weight=3))
    return ps, i


def programs(tier, seed):
    ps = []
    a, i = adversarial(tier, seed, 0)
    ps += a
    a, i = critical_followers(tier, seed, i)
    ps += a
    a, i = flag_programs(tier, seed, i)
    ps += a
    a, i = type_operands(tier, seed, i)
    ps += a
    a, i = wrapper_flag_programs(tier, seed, 5000)
    ps += a
    a, i = adjacency(tier, seed, i)
    ps += a
    a, i = separators(tier, seed, i)
    ps += a
    return ps


def generate(tier, seed):
    return pack("c14", programs(tier, seed), 8)


META = dict(
    level="translation_validation",
    rule="programs: every operator site (operator x input type) x every adversarial operand shape of its signature, followed by an operator of an overlapping family (40% flagged ~); "
         "listed adjacent operator pairs with and without ~; two-branch programs with commas / a `then` handler directly after operand-less operators and adversarial operands. Each compared with "
         "the documented method chain on symbolic inputs; packed 8 per query; disagreements_checked = programs discharged",
    functions_encoded=["expansions of programs with operator look-alikes in operands (parse_until, GroupDeterminer::check_parsed, n-operand unit parsers, ActionExprChainBuilder loop and branch terminator)"],
    bounds=["operand shapes of the catalogue in gen_c14.py", "iterators 2 (quick) / 3 elements", "macros join!, try_join!"],
    outside=["operands outside the catalogue", "rejection of ill-formed input (C15, not applicable)", "the parse tree itself (the parser cannot be executed symbolically): only its consequence - the meaning of the program - is decided"],
    assumptions=["reference renderings of DESIGN.md Appendix A"],
)
