"""Depth profiles and shared naming for the profile-driven families (C03-C06, C12, C13 ...)."""
import itertools
import random

KINDS = {
    # name: (is_async, is_try, is_spawn)
    "join": (False, False, False),
    "try_join": (False, True, False),
    "join_spawn": (False, False, True),
    "try_join_spawn": (False, True, True),
    "spawn": (False, False, True),
    "try_spawn": (False, True, True),
    "join_async": (True, False, False),
    "try_join_async": (True, True, False),
    "join_async_spawn": (True, False, True),
    "try_join_async_spawn": (True, True, True),
    "async_spawn": (True, False, True),
    "try_async_spawn": (True, True, True),
}
ALIASES = {"spawn": "join_spawn", "try_spawn": "try_join_spawn", "async_spawn": "join_async_spawn", "try_async_spawn": "try_join_async_spawn"}


def profiles(nmax, dmax, nmin=1):
    out = []
    for n in range(nmin, nmax + 1):
        out.extend(itertools.product(range(1, dmax + 1), repeat=n))
    return out


def active(profile, s):
    return [b for b, d in enumerate(profile) if d > s]


STRIDE = 12     # ids per branch; generators of many-step programs (<= 3 branches, <= 12 steps) set it to 24 while they build such a program


def E(b, s, k=0):
    """event id of callback k of (branch b, step s); branches < 12, steps < 6 (STRIDE 12) or branches < 4, steps < 12 (STRIDE 24), k < 2"""
    assert s * 2 + k < STRIDE, "event ids of neighbouring branches would collide"
    return 1 + b * STRIDE + s * 2 + k


def o(b, s):
    return "o%d_%d" % (b, s)


def p(b, s):
    return "p%d_%d" % (b, s)


def n(b, s):
    return "n%d_%d" % (b, s)


def decl(profile, flags=True, payloads=True, gates=None):
    """declarations of the symbolic inputs of a profile program; gates = max pending count or None"""
    lines = []
    for b, d in enumerate(profile):
        for s in range(d):
            if flags:
                lines.append("let %s = b();" % o(b, s))
            if payloads:
                lines.append("let %s = u();" % p(b, s))
            if gates is not None:
                lines.append("let %s = upto(%d);" % (n(b, s), gates))
    return "\n    ".join(lines)


def val(b, s):
    """payload of branch b after step s when every step xors its own payload in: p_b0 ^ ... ^ p_bs"""
    return "(" + " ^ ".join(p(b, i) for i in range(s + 1)) + ")"


def pstr(profile):
    return "(" + ",".join(str(d) for d in profile) + ")"


def rng(seed, salt):
    return random.Random("%s-%s" % (seed, salt))
