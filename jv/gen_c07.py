"""C07 - spawn variants and alias macros agree with their plain counterparts (differential translation validation).

The same program text is instantiated under two macro names in one harness, on the same symbolic inputs:
results equal, per-position call counts equal, handler count equal; for alias pairs additionally equal model
observations (threads / tasks spawned, op-log length).  Alias-discriminating programs: a single branch with a
failing first step behaves differently under the try and the non-try configuration (a wrong `is_try` is a solver
counterexample, not a build failure); multi-branch programs make a wrong `is_spawn` visible as spawned == 0.
"""
from .driver import Program, pack
from .pp import *

PAIRS_SYNC = [("join", "join_spawn"), ("try_join", "try_join_spawn")]
PAIRS_ALIAS = [("join_spawn", "spawn"), ("try_join_spawn", "try_spawn")]
PAIRS_ASYNC = [("join_async", "join_async_spawn"), ("try_join_async", "try_join_async_spawn")]
PAIRS_ASYNC_ALIAS = [("join_async_spawn", "async_spawn"), ("try_join_async_spawn", "try_async_spawn")]


def make(pid, ma, mb, profile, idx, seed, alias=False, discriminate=False):
    is_async, is_try, _ = KINDS[ma]
    carrier = "res" if is_try else ["raw", "opt"][idx % 2]
    if discriminate:
        carrier = "res" if is_async else "opt"
    r = rng(seed, pid)
    styles = {}
    for b, d in enumerate(profile):
        for s in range(1, d):
            if is_async:
                styles[(b, s)] = "amap"
            elif discriminate:
                styles[(b, s)] = "then"
            elif carrier != "raw":
                styles[(b, s)] = ["and_then", "then"][(idx + b + s) % 2]
    handler = None
    if idx % 3 == 0 and not discriminate:
        handler = ("map" if idx % 2 else "and_then") if is_try else "then"
    can_fail = is_try or discriminate
    pp = PP(ma, profile, carrier=carrier, can_fail=can_fail, handler=handler, styles=styles)
    ta = pp.text()
    tb = ta.replace(ma + "!", mb + "!", 1)
    evs = []
    for b, d in enumerate(profile):
        for s in range(d):
            if is_async:
                evs += [E(b, s, 0), E(b, s, 1)]
            elif s >= 1:
                evs.append(E(b, s))
    if handler:
        evs.append(H_EV)
    snap = "(" + ", ".join("cnt(%d)" % e for e in evs) + ",)" if evs else "()"
    L = ["names_off();", pp.decls()]
    msg = lambda t: "\"C07[%s]: %s\"" % (pid, t)
    if is_async:
        L.append("let mut fa = %s;" % ta)
        L.append("let ra = poll_once(&mut fa);")
        L.append("let (sa, ka) = (%s, k_spawned());" % snap)
        L.append("reset(); names_off();")
        L.append("let mut fb = %s;" % tb)
        L.append("let rb = poll_once(&mut fb);")
        L.append("let (sb, kb) = (%s, k_spawned());" % snap)
        L.append("vassert!(ra.is_ready() && ra == rb, %s);" % msg("%s! and %s! produce the same result" % (ma, mb)))
        if not is_try:
            L.append("vassert!(sa == sb, %s);" % msg("same per-position call counts"))
        if alias:
            L.append("vassert!(ka == kb, %s);" % msg("an alias spawns exactly as many tasks as the macro it stands for"))
            if len(profile) > 1:
                L.append("vassert!(kb == %d, %s);" % (len(profile), msg("one task per branch of a multi-branch step")))
    else:
        L.append("let ra = %s;" % ta)
        L.append("let (sa, ta_, na) = (%s, t_spawned(), t_nops());" % snap)
        L.append("reset(); names_off();")
        L.append("let rb = %s;" % tb)
        L.append("let (sb, tb_, nb) = (%s, t_spawned(), t_nops());" % snap)
        L.append("vassert!(ra == rb, %s);" % msg("%s! and %s! produce the same result" % (ma, mb)))
        L.append("vassert!(sa == sb, %s);" % msg("same per-position call counts and handler count"))
        if alias:
            L.append("vassert!(ta_ == tb_ && na == nb, %s);" % msg("an alias spawns and joins exactly as many threads as the macro it stands for"))
    if discriminate:
        # single branch, two steps, first step may fail: try => callback of step 1 skipped on failure, non-try => called
        first_ok = pp.ok(0, 0)
        ev1 = E(0, 1, 0) if is_async else E(0, 1)
        if is_try:
            L.append("vassert!(cnt(%d) == (%s) as u8, %s);" % (ev1, first_ok, msg("try alias: the second step is skipped when the first fails")))
        else:
            L.append("vassert!(cnt(%d) == 1, %s);" % (ev1, msg("non-try alias: the second step always runs")))
        L.append("vcover!(!%s, \"first step fails\");" % first_ok)
    if can_fail and not discriminate:
        L.append("vcover!(!(%s), \"some position fails\");" % pp.all_ok())
    L.append("vcover!(true, \"end reached\");")
    desc = dict(pair=[ma, mb], profile=list(profile), carrier=carrier, handler=handler, discriminating=discriminate)
    return Program(pid, ta + "\n  vs\n" + tb, "    " + "\n    ".join(l for l in L if l), desc=desc, group="%s~%s" % (ma, mb), role=dict(kind=mb),
                   solo=is_async and (len(profile) > 2 or max(profile) > 1), unwind=64 if not is_async else 12, weight=2)


def send_only(pid, ma, mb):
    """branch values that are Send + 'static but not Sync (and not Clone / Copy): exactly what the property requires of them"""
    is_async, is_try, _ = KINDS[ma]
    msg = lambda t: "\"C07[%s]: %s\"" % (pid, t)
    L = ["names_off();", "let p0 = u(); let p1 = u(); let p2 = u();"]
    if not is_async:
        w = (lambda x: "Some(sendonly(%s))" % x) if is_try else (lambda x: "sendonly(%s)" % x)
        op = "|>" if is_try else "->"
        ta = "%s! { %s %s move |v: SendOnly| SendOnly(v.0 ^ 1, v.1), %s ~%s move |v: SendOnly| v, %s }" % (ma, w("p0"), op, w("p1"), op, w("p2"))
        tb = ta.replace(ma + "!", mb + "!", 1)
        L.append("let ra = %s;" % ta)
        L.append("reset(); names_off();")
        L.append("let rb = %s;" % tb)
        exp = "(sendonly(p0 ^ 1), sendonly(p1), sendonly(p2))"
        L.append("vassert!(ra == rb && rb == %s, %s);" % ("Some(%s)" % exp if is_try else exp, msg("%s! and %s! agree on Send + 'static (not Sync, not Clone) values" % (ma, mb))))
        L.append("vassert!(t_spawned() == 3, %s);" % msg("one thread per branch of the three-branch step (the single-branch step runs on the caller)"))
    else:
        w = (lambda x: "ready(mk2(sendonly(%s)))" % x) if is_try else (lambda x: "ready(sendonly(%s))" % x)
        f0 = "move |r: Result<SendOnly, u8>| r.map(|v| SendOnly(v.0 ^ 1, v.1))" if is_try else "move |v: SendOnly| SendOnly(v.0 ^ 1, v.1)"
        f1 = "move |r: Result<SendOnly, u8>| r" if is_try else "move |v: SendOnly| v"
        ta = "%s! { %s |> %s, %s ~|> %s, %s }" % (ma, w("p0"), f0, w("p1"), f1, w("p2"))
        tb = ta.replace(ma + "!", mb + "!", 1)
        L.append("let ra = { let mut f = %s; poll_once(&mut f) };" % ta)
        L.append("reset(); names_off();")
        L.append("let rb = { let mut f = %s; poll_once(&mut f) };" % tb)
        exp = "(sendonly(p0 ^ 1), sendonly(p1), sendonly(p2))"
        L.append("vassert!(ra == rb && rb == Poll::Ready(%s), %s);" % ("Ok(%s)" % exp if is_try else exp, msg("%s! and %s! agree on Send + 'static (not Sync, not Clone) values" % (ma, mb))))
        L.append("vassert!(k_spawned() >= 3, %s);" % msg("tasks were spawned"))
    L.append("vcover!(true, \"end reached\");")
    items = "fn mk2<T>(v: T) -> Result<T, u8> { Ok(v) }" if is_async and is_try else ""
    return Program(pid, ta + "\n  vs\n" + tb, "    " + "\n    ".join(L), items=items, desc=dict(pair=[ma, mb], values="Send + 'static, !Sync, !Clone"), group="send-only/%s~%s" % (ma, mb),
                   role=dict(kind=mb), solo=is_async, unwind=64 if not is_async else 12, weight=2)


# block operands are evaluated in the caller's scope in front of the step, whichever macro of the pair is used: blocks that draw tickets
# from a `Copy` counter of the caller make the place of evaluation part of the computed values
TICKET_OPS = [
    ("<|", "opt", "{ t = t.wrapping_add(1); mo(%(F)s, t ^ %(K)s) }"),
    ("<|", "res", "{ t = t.wrapping_add(1); mk(%(F)s, t ^ %(K)s) }"),
    ("<=", "opt", "{ t = t.wrapping_add(1); let tt = t; move || mo(%(F)s, tt ^ %(K)s) }"),
    ("<=", "res", "{ t = t.wrapping_add(1); let tt = t; move |e: u8| mk(%(F)s, e ^ tt) }"),
    ("!>", "res", "{ t = t.wrapping_add(1); let tt = t; move |e: u8| e ^ tt }"),
    ("|>", "opt", "{ t = t.wrapping_add(1); let tt = t; move |v: u8| v ^ tt }"),
    ("=>", "opt", "{ t = t.wrapping_add(1); let tt = t; move |v: u8| mo(v > %(K)s, v ^ tt) }"),
    ("?>", "opt", "{ t = t.wrapping_add(1); let tt = t; move |v: &u8| *v > tt }"),
    ("->", "opt", "{ t = t.wrapping_add(1); let tt = t; move |v: Option<u8>| v.map(|x| x ^ tt) }"),
]


def tickets(pid, ma, mb, site, step, seed):
    from .dsl import Ctx
    op, carrier, block = site
    ctx = Ctx(rng(seed, pid))
    is_async, is_try, _ = KINDS[ma]
    mkv = (lambda: "mo(%s, %s)" % (ctx.f(), ctx.k())) if carrier == "opt" else (lambda: "mk(%s, %s)" % (ctx.f(), ctx.k()))
    blk = lambda: block % dict(F=ctx.f(), K=ctx.k())
    pre = "~" if step == 1 else ""
    idf = "|> move |v: u8| v " if step == 1 else ""
    branches = ["%s %s%s%s %s" % (mkv(), idf, pre, op, blk()) for _ in range(2)]
    if step == 1:
        branches.append(mkv())
    ta = "%s! { %s }" % (ma, ", ".join(branches))
    tb = ta.replace(ma + "!", mb + "!", 1)
    msg = lambda t_: "\"C07[%s]: %s\"" % (pid, t_)
    L = ["names_off();"] + list(ctx.decls) + ["let t0 = u();", "let mut t = t0;"]
    L.append("let ra = %s;" % ta)
    L.append("let ta_ = t;")
    L.append("reset(); names_off(); t = t0;")
    L.append("let rb = %s;" % tb)
    L.append("vassert!(ra == rb, %s);" % msg("%s! and %s! compute the same values from block operands that draw from a counter of the caller" % (ma, mb)))
    L.append("vassert!(ta_ == t, %s);" % msg("the caller's counter ends up the same under both macros"))
    if not is_try:
        L.append("vassert!(t == t0.wrapping_add(2), %s);" % msg("both blocks ran once in the caller's scope"))
    L.append("vcover!(t != t0, \"tickets drawn\");")
    L.append("vcover!(true, \"end reached\");")
    return Program(pid, ta + "\n  vs\n" + tb, "    " + "\n    ".join(L), desc=dict(pair=[ma, mb], operator=op, carrier=carrier, step=step, blocks="draw tickets from a Copy counter of the caller"),
                   group="tickets/%s~%s" % (ma, mb), role=dict(kind=mb), unwind=64, weight=2)


def lone_step(pid, ma, mb, profile):
    """a later step with ONE active branch runs in place in the caller under every name (a thread-spawning macro spawns only for a step with more
    than one active branch): its callback may borrow and update a local of the caller - results AND the local afterwards agree"""
    is_async, is_try, _ = KINDS[ma]
    nb = len(profile)
    lone = max(range(nb), key=lambda b_: profile[b_])
    w = (lambda x: "mk(true, %s)" % x) if is_try else (lambda x: x)
    sop = "~|>" if is_try else "~->"
    brs = []
    for b_ in range(nb):
        parts = [w("p%d" % b_)]
        for s_ in range(1, profile[b_]):
            if b_ == lone and s_ >= sorted(profile)[-2]:
                parts.append("%s |v: u8| { acc = acc.wrapping_mul(3).wrapping_add(v); v ^ q%d }" % (sop, s_))
            else:
                parts.append("%s move |v: u8| v ^ q%d" % (sop, s_))
        brs.append(" ".join(parts))
    ta = "%s! { %s }" % (ma, ", ".join(brs))
    tb = ta.replace(ma + "!", mb + "!", 1)
    msg = lambda t_: "\"C07[%s]: %s\"" % (pid, t_)
    L = ["names_off();", "let %s;" % "; let ".join(["p%d = u()" % b_ for b_ in range(nb)] + ["q%d = u()" % s_ for s_ in range(1, max(profile))]), "let a0 = u();", "let mut acc = a0;"]
    L.append("let ra = %s;" % ta)
    L.append("let acc_a = acc;")
    L.append("reset(); names_off(); acc = a0;")
    L.append("let rb = %s;" % tb)
    L.append("vassert!(ra == rb, %s);" % msg("%s! and %s! compute the same values" % (ma, mb)))
    L.append("vassert!(acc_a == acc, %s);" % msg("a step with a single active branch runs in the caller's scope under both names: the caller's local it updates ends up the same"))
    L.append("vcover!(acc != a0, \"the lone step updated the caller's local\");")
    return Program(pid, ta + "\n  vs\n" + tb, "    " + "\n    ".join(L), desc=dict(pair=[ma, mb], profile=list(profile), lone_branch=lone, callback="borrows a local of the caller mutably (not `move`)"),
                   group="lone-step/%s~%s" % (ma, mb), role=dict(kind=mb), unwind=64, weight=2)


def ticket_programs(tier, seed, start):
    ps = []
    i = start
    pairs = PAIRS_SYNC + [("join", "spawn"), ("try_join", "try_spawn")]
    for si, site in enumerate(TICKET_OPS):
        for step in (0, 1):
            for mi, (ma, mb) in enumerate(pairs):
                i += 1
                if tier == "quick" and (si + step + mi + seed) % 2:
                    continue
                ps.append(tickets("p%04d" % i, ma, mb, site, step, seed))
    return ps


def programs(tier, seed):
    ps = programs_main(tier, seed)
    ps += ticket_programs(tier, seed, 700)
    i = 900
    for ma, mb in PAIRS_SYNC + PAIRS_ASYNC + [("join", "spawn"), ("try_join", "try_spawn"), ("join_async", "async_spawn"), ("try_join_async", "try_async_spawn")]:
        i += 1
        ps.append(send_only("p%04d" % i, ma, mb))
    i = 950
    for k, (ma, mb) in enumerate(PAIRS_SYNC + [("join", "spawn"), ("try_join", "try_spawn")]):
        for prof in ((1, 2), (2, 1, 3), (3, 1)):
            i += 1
            if tier == "quick" and (i + seed) % 2:
                continue
            ps.append(lone_step("p%04d" % i, ma, mb, prof))
    return ps


def programs_main(tier, seed):
    ps = []
    i = 0
    profs = profiles(3, 3) if tier == "thorough" else [pr for pr in profiles(3, 3) if sum(pr) <= 5]
    for ma, mb in PAIRS_SYNC:
        for prof in profs:
            i += 1
            if tier == "quick" and (i + seed) % 2:
                continue
            ps.append(make("p%04d" % i, ma, mb, prof, i, seed))
    aprofs = [(1,), (1, 1), (2, 1), (1, 2), (1, 1, 1), (2, 2)] if tier == "quick" else profiles(3, 2) + [(3, 1), (1, 3, 2)]
    for ma, mb in PAIRS_ALIAS:
        for prof in aprofs:
            i += 1
            ps.append(make("p%04d" % i, ma, mb, prof, i, seed, alias=True))
        i += 1
        ps.append(make("p%04d" % i, ma, mb, (2,), i, seed, alias=True, discriminate=True))
    asp = [(1,), (1, 1), (2, 1)] if tier == "quick" else [(1,), (1, 1), (2, 1), (1, 2), (1, 1, 1), (2, 2)]
    for ma, mb in PAIRS_ASYNC:
        for prof in asp:
            i += 1
            ps.append(make("p%04d" % i, ma, mb, prof, i, seed))
    for ma, mb in PAIRS_ASYNC_ALIAS:
        for prof in asp[:2] if tier == "quick" else asp[:4]:
            i += 1
            ps.append(make("p%04d" % i, ma, mb, prof, i, seed, alias=True))
        i += 1
        ps.append(make("p%04d" % i, ma, mb, (2,), i, seed, alias=True, discriminate=True))
    return ps


def generate(tier, seed):
    return pack("c07", programs(tier, seed), 5)


META = dict(
    level="translation_validation",
    rule="programs: profile programs (symbolic payloads, symbolic failures in try kinds, optional handler) instantiated under both names of each pair: join/join_spawn, try_join/try_join_spawn "
         "(profiles <= 3x3, quick: <= 5 positions, every second), the four alias pairs (six shapes each + one try/non-try discriminating single-branch program), the async pairs; "
         "ticket programs: nine block-operand sites x step in {0,1} x four pairs (quick: half, seed-rotated), the blocks draw from a Copy counter of the caller; "
         "packed 5 per query; disagreements_checked = program pairs discharged; distinct = distinct pair texts",
    functions_encoded=["all 12 proc-macro entry points of join/src/lib.rs (their Config triples) and the expansions they produce"],
    bounds=["branches <= 3, steps <= 3 (async <= 2)", "async programs are compared after one poll with always-ready gates", "thread / task placement symbolic per thread / task"],
    outside=["branches that communicate (excluded by the property)", "real schedulers"],
    assumptions=["thread and tokio models of DESIGN.md 2.2", "format! model returns an empty string"],
)
