"""C10 - every user expression runs exactly once; values move, never copy.

(A) operator chains over move-only `Tok` payloads (no Clone / Copy, Drop counted): callback counts, arguments and
    order equal the reference chain's (so "as often as the underlying method invokes them" is literal), values equal,
    and after both sides went out of scope  created == dropped  (count and value sum);
(B) the same for wrapper programs (C02's family) over Tok;
(C) profile programs: every initial expression, block capture, callback, second action and handler runs exactly once
    when control flow reaches it and not at all otherwise (non-try kinds: always; try kinds: per failing step);
(D) every operator site with a side-effecting block operand (C11's site table incl. `<|`, `<=`, `!>` and both fold
    operands): the block is evaluated exactly once.
A macro that needed Clone / Copy for a payload would not build (build-stage violation).
"""
from .driver import Program, pack
from .dsl import *
from . import gen_c01, gen_c02, gen_c06
from .gen_c01 import build
from .pp import PP, CAP, INIT, H_EV, E
from .profiles import rng, KINDS, profiles, active

TOK_INPUTS = [OPT(TOK), RES(TOK), IT(TOK), TOK, IT(OPT(TOK)), OPT(OPT(TOK)), PAIR(TOK, U8)]


def op_programs(tier, seed, start):
    ps = []
    i = start
    # every operator alone on every Tok-based type it types on
    for nm in OP_NAMES:
        for t in TOK_INPUTS:
            c0 = Ctx(random.Random(1))
            if OPS[nm](c0, t) is None:
                continue
            i += 1
            pid = "p%04d" % i
            ctx = Ctx(rng(seed, pid), itlen=2)
            inp = ctx.value(t)
            st = OPS[nm](ctx, t)
            macro = ["join", "join_spawn", "join"][i % 3]
            prog = build(pid, macro, ctx, inp, [st], st.out, second_branch=(i % 4 == 1), group="op/" + macro, tok=True, prop="C10")
            if tier == "quick" and prog.weight > 14:
                continue
            ps.append(prog)
    # sampled multi-step chains
    r = rng(seed, "c10chains")
    want = 16 if tier == "quick" else 80
    made = 0
    while made < want:
        i += 1
        pid = "p%04d" % i
        ctx = Ctx(rng(seed, pid), itlen=2)
        t = r.choice(TOK_INPUTS)
        inp = ctx.value(t)
        chain, out = random_chain(ctx, t, r.randint(2, 5))
        if len(chain) < 2:
            continue
        for st in chain[1:]:
            if ctx.rnd.random() < 0.35:
                st.deferred = True
        prog = build(pid, ["join", "join_spawn"][made % 2], ctx, inp, chain, out, second_branch=(made % 3 == 0), group="chain", tok=True, prop="C10")
        if tier == "quick" and prog.weight > 14:
            continue
        ps.append(prog)
        made += 1
    return ps, i


def wrapper_programs(tier, seed, start):
    """C02's wrapper family over Tok payloads"""
    def sub(t):
        if t == U8:
            return TOK
        if t[0] in ("opt", "res", "it", "vec"):
            return (t[0], sub(t[1]))
        if t[0] == "pair":
            return ("pair", sub(t[1]), t[2])
        return t
    saved = dict(gen_c02.WRAPPER_INPUTS)
    try:
        gen_c02.WRAPPER_INPUTS = {k: [sub(t) for t in v] for k, v in saved.items()}
        ps = gen_c02.programs(tier, seed + 1000)
    finally:
        gen_c02.WRAPPER_INPUTS = saved
    out = []
    i = start
    for p in ps:
        i += 1
        if tier == "quick" and i % 3:
            continue
        # re-label and add the token balance: wrap the body
        lines = p.body.splitlines()
        body = [lines[0], "    {"] + ["    " + l for l in lines[1:]] + ["    }",
                "    vassert!(tok_balance(), \"C10[%s]: every move-only value is dropped exactly once\");" % p.pid,
                "    vcover!(created() > 0, \"tokens were created\");"]
        q = Program("w" + p.pid[1:], p.text, "\n".join(body).replace("C01[", "C10["), desc=p.desc, group="wrapper", role=dict(kind=p.role.get("kind", "join")),
                    unwind=p.unwind, weight=p.weight)
        out.append(q)
    return out, i


def count_programs(tier, seed, start):
    ps = []
    i = start
    r = rng(seed, "c10counts")
    profs = [pr for pr in profiles(3, 3) if sum(pr) >= 2]
    for macro in ("join", "join_spawn", "try_join", "join_async", "try_join_async"):
        is_async, is_try, is_spawn = KINDS[macro]
        for prof in profs:
            if is_async and (len(prof) > 2 or max(prof) > 2):
                continue
            if tier == "quick" and (r.random() < 0.5 or (is_spawn and sum(prof) > 6)):
                continue
            i += 1
            pid = "p%04d" % i
            carrier = "res" if is_try else ["raw", "opt"][i % 2]
            captures, extra, styles = set(), set(), {}
            for b, d in enumerate(prof):
                for s in range(d):
                    if s >= 1:
                        captures.add((b, s))
                        if is_async:
                            styles[(b, s)] = "amap"
                        elif carrier != "raw":
                            styles[(b, s)] = ["and_then", "then"][(i + b + s) % 2]
                    if not is_async and r.random() < 0.5:
                        extra.add((b, s))
            handler = ("map" if i % 2 else "and_then") if is_try else "then"
            pp = PP(macro, prof, carrier=carrier, can_fail=is_try, handler=handler, styles=styles, captures=captures, init_blocks=not is_async, extra_instant=extra)
            pp.handler_pos = [None, 0][i % 2]
            text = pp.text()
            L = ["names_off();" if is_spawn and not is_async else "", pp.decls()]
            if is_async:
                L.append("let mut fut = %s;" % text)
                L.append("let (r, polls, lost) = drive(&mut fut, 2);")
                L.append("vassert!(r.is_some(), \"C10[%s]: completes\");" % pid)
            else:
                L.append("let r = %s;" % text)
            L.append("let fs: u8 = %s;" % pp.fail_step_expr())
            for b, d in enumerate(prof):
                for s in range(d):
                    if is_async:
                        if s == 0:
                            # (a sibling of a branch that fails in step 0 may be dropped unpolled by futures::try_join!)
                            L.append("vassert!(cnt(%d) <= 1 && (fs == 0 || cnt(%d) == 1), \"C10[%s]: initial future is entered exactly once (at most once when step 0 fails)\");" % (E(b, 0, 0), E(b, 0, 0), pid))
                        else:
                            # (in the failing step itself a sibling of the failing branch may be dropped unpolled by futures::try_join!)
                            L.append("vassert!(cnt(%d) == (fs >= %d) as u8 && cnt(%d) <= 1 && (fs <= %d || cnt(%d) == 1) && (fs >= %d || cnt(%d) == 0), \"C10[%s]: capture of a reached step runs exactly once; its callback exactly once when the step completes, never when it is not reached (async)\");" % (CAP(b, s), s, E(b, s, 0), s, E(b, s, 0), s, E(b, s, 0), pid))
                        continue
                    if s == 0:
                        L.append("vassert!(cnt(%d) == 1, \"C10[%s]: every initial expression is evaluated exactly once\");" % (INIT(b), pid))
                    else:
                        L.append("vassert!(cnt(%d) == (fs >= %d) as u8 && cnt(%d) == (fs >= %d) as u8, \"C10[%s]: capture and callback of a reached step run exactly once, of an unreached step never\");" % (CAP(b, s), s, E(b, s), s, pid))
                    if (b, s) in extra:
                        L.append("vassert!(cnt(%d) == (fs >= %d && %s) as u8, \"C10[%s]: second action runs exactly once when reached\");" % (E(b, s, 1), s, pp.ok(b, s), pid))
            if is_try:
                L.append("vassert!(cnt(%d) == (fs == 255) as u8, \"C10[%s]: handler runs exactly once iff reached\");" % (H_EV, pid))
                L.append("vcover!(fs != 255, \"some step fails\");")
            else:
                L.append("vassert!(cnt(%d) == 1, \"C10[%s]: then handler runs exactly once\");" % (H_EV, pid))
            L.append("vcover!(fs == 255, \"nothing fails\");")
            ps.append(Program(pid, text, "    " + "\n    ".join(l for l in L if l), desc=dict(macro=macro, profile=list(prof), carrier=carrier, handler=handler),
                              group="counts/" + macro, role=dict(kind=macro), solo=is_async and max(prof) > 1, unwind=64 if not is_async else 12, weight=2))
    return ps, i


def block_once_programs(tier, seed, start):
    """every operator site whose operand is a side-effecting block (incl. `<|`, `<=`, `!>`, both fold operands):
    the block is evaluated exactly once per macro evaluation (C11's programs, all sites, step 0, no wrapper)"""
    from . import gen_c11
    ps = []
    i = start
    for si, site in enumerate(gen_c11.SITES):
        for mi, macro in enumerate(("join", "join_spawn")):
            i += 1
            if site[0] == "?&!>" and macro != "join":
                continue
            if tier == "quick" and (si + mi) % 2:
                continue
            p = gen_c11.make("p%04d" % i, macro, site, 0, 0, i, seed, with_pre=bool(si % 2))
            p.body = p.body.replace("C11[", "C10[")
            p.group = "block-once/" + macro
            ps.append(p)
    return ps, i


def reeval_programs(tier, seed, start):
    """ONE textual call site evaluated three times (a function holding the macro, called with different symbolic inputs): every evaluation runs
    every user expression exactly once and yields the closed form for ITS inputs - nothing is remembered from an earlier evaluation"""
    from .profiles import KINDS
    ps = []
    i = start
    kinds = ["join", "try_join", "join_spawn", "try_join_spawn", "join_async", "try_join_async", "join_async_spawn", "try_join_async_spawn"]
    for k, macro in enumerate(kinds):
        i += 1
        if tier == "quick" and (k + seed) % 2:
            continue
        pid = "p%04d" % i
        is_async, is_try, is_spawn = KINDS[macro]
        fn = "site_%s" % pid
        el = "Result<u8, u8>" if is_try else "u8"
        rty = "Result<(u8, u8), u8>" if is_try else "(u8, u8)"
        w = (lambda o_, x: "mk(%s, %s)" % (o_, x)) if is_try else (lambda o_, x: x)
        if is_async:
            s1 = "~|> move |r: %s| { ev(e + 2); %s }" % (el, "r.map(|v| v ^ q)" if is_try else "r ^ q")
            body = "%s! { (move || { ev(e); ready(%s) })(), { ev(e + 1); ready(%s) } %s }" % (macro, w("o0", "x"), w("o1", "y"), s1)
            items = "fn %s(x: u8, y: u8, q: u8, o0: bool, o1: bool, e: usize) -> %s { let mut fut = %s; match poll_once(&mut fut) { Poll::Ready(r) => r, Poll::Pending => { vassert!(false, \"C10[%s]: ready futures complete with one poll\"); loop {} } } }" % (fn, rty, body, pid)
        else:
            s1 = "~|> move |v: u8| { ev(e + 2); v ^ q }" if is_try else "~-> move |v: u8| { ev(e + 2); v ^ q }"
            body = "%s! { (move || { ev(e); %s })(), { ev(e + 1); %s } %s }" % (macro, w("o0", "x"), w("o1", "y"), s1)
            items = "fn %s(x: u8, y: u8, q: u8, o0: bool, o1: bool, e: usize) -> %s { %s }" % (fn, rty, body)
        msg = lambda t: "\"C10[%s]: %s\"" % (pid, t)
        L = ["names_off();" if is_spawn and not is_async else ""]
        for r_ in range(3):
            L.append("let x%d = u(); let y%d = u(); let q%d = u(); let oa%d = %s; let ob%d = %s;" % (r_, r_, r_, r_, "b()" if is_try else "true", r_, "b()" if is_try else "true"))
            L.append("let r%d = %s(x%d, y%d, q%d, oa%d, ob%d, %d);" % (r_, fn, r_, r_, r_, r_, r_, 1 + 3 * r_))
            if is_try:
                exp = "if !oa%d { Err(x%d) } else if !ob%d { Err(y%d) } else { Ok((x%d, y%d ^ q%d)) }" % (r_, r_, r_, r_, r_, r_, r_)
                if is_async:
                    L.append("vassert!(r%d == (%s) || (!oa%d && !ob%d && r%d == Err(y%d)), %s);" % (r_, exp, r_, r_, r_, r_, msg("evaluation %d of the call site yields the closed form for its own inputs" % r_)))
                else:
                    L.append("vassert!(r%d == (%s), %s);" % (r_, exp, msg("evaluation %d of the call site yields the closed form for its own inputs" % r_)))
                L.append("vassert!(cnt(%d) <= 1 && cnt(%d) <= 1 && cnt(%d) == (oa%d && ob%d) as u8, %s);" % (1 + 3 * r_, 2 + 3 * r_, 3 + 3 * r_, r_, r_, msg("every expression of evaluation %d runs at most once, the second step exactly once iff the first succeeded" % r_)))
                if not is_async:
                    L.append("vassert!(cnt(%d) == 1 && cnt(%d) == 1, %s);" % (1 + 3 * r_, 2 + 3 * r_, msg("both initial expressions of evaluation %d ran once" % r_)))
            else:
                L.append("vassert!(r%d == (x%d, y%d ^ q%d), %s);" % (r_, r_, r_, r_, msg("evaluation %d of the call site yields the closed form for its own inputs" % r_)))
                L.append("vassert!(cnt(%d) == 1 && cnt(%d) == 1 && cnt(%d) == 1, %s);" % (1 + 3 * r_, 2 + 3 * r_, 3 + 3 * r_, msg("every expression runs exactly once per macro evaluation (evaluation %d)" % r_)))
        L.append("vcover!(true, \"end reached\");")
        ps.append(Program(pid, body + "   [inside fn %s, called three times]" % fn, "    " + "\n    ".join(l for l in L if l), items=items, desc=dict(macro=macro, evaluations=3, call_site="one function body"),
                          group="re-evaluation", role=dict(kind=macro), unwind=64 if not is_async else 12, solo=True, weight=4))
    return ps, i


def programs(tier, seed):
    ps = []
    a, i = op_programs(tier, seed, 0)
    ps += a
    a, i = wrapper_programs(tier, seed, i)
    ps += a
    a, i = count_programs(tier, seed, i)
    ps += a
    a, i = block_once_programs(tier, seed, i)
    ps += a
    a, i = reeval_programs(tier, seed, 3000)
    ps += a
    if tier == "thorough":
        # measured (thorough run of this tier): with move-only payloads these do not finish within 1200 s / 12 GB -
        # zip after a wrapper, Vec collection after a filtering wrapper, partition under the thread model
        ps = [p for p in ps if not ((p.group == "wrapper" and (p.weight > 12 or ">^>" in p.text)) or (p.group != "wrapper" and p.weight > 60))]
    return ps


def generate(tier, seed):
    return pack("c10", programs(tier, seed), 8)


META = dict(
    level="model_checking",
    rule="(A) every operator alone on every move-only (Tok) input type + seed-sampled multi-step chains, under join!/join_spawn! as only or second branch; (B) C02's wrapper family over Tok (quick: one third); "
         "(C) profile programs with init blocks, block captures at every later position, second actions and handlers under join!/join_spawn!/try_join!/join_async!/try_join_async! (quick: half, seed-chosen). "
         "Packed 8 per query; non-trivial = passed with witnesses (tokens created / some step fails / nothing fails); distinct = distinct invocation texts",
    functions_encoded=["expansions over move-only payloads (operands quoted once into the output, __inspect helper, results rebound by move between steps, extract_results_tuple)"],
    bounds=["iterators of 2 move-only tokens", "chains <= 5 operators", "profiles <= 3x3 (async <= 2x2)"],
    outside=["longer chains / iterators", "drop order (not part of the property)"],
    assumptions=["Tok::map counts as drop of the old and creation of a new token", "thread model for join_spawn!", "reference renderings of DESIGN.md Appendix A"],
)
