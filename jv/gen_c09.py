"""C09 - async macros are lazy, concurrent within a step, and always complete.

Executor and gates of rt.rs.  Three program shapes:
  N  - every position awaits a GateN with a symbolic pending count; the harness polls one poll at a time and asserts
       after poll k: every branch whose own gates need <= k-1 pending polls has finished its step (independent progress),
       a Pending result comes with a root wake-up, and Ready arrives exactly at poll 1 + sum_steps max_active n (not
       later: no lost progress; not earlier);
  F  - every branch awaits a harness-controlled GateF; between polls the harness opens a symbolic subset of the closed
       gates (possibly none = spurious poll) and calls the wakers the gates stored: the root waker must be notified iff
       a stored waker was called, and the future must be Ready exactly at the first poll with all gates open;
  lazy - before the first poll nothing has been evaluated and no task spawned.
"""
from .driver import Program, pack
from .pp import *


def shape_n(pid, macro, profile, gates, seed, heavy=False, cheap_later=False, athen=False, sstep=False):
    is_async, is_try, is_spawn = KINDS[macro]
    carrier = "res" if is_try else "raw"
    styles = {}
    if athen:
        for b, d in enumerate(profile):
            for s in range(1, d):
                styles[(b, s)] = "athen"
    if cheap_later:
        for b, d in enumerate(profile):
            for s in range(1, d):
                styles[(b, s)] = "amap"
    from . import profiles as _pf
    _pf.STRIDE = 24 if max(profile) > 6 else 12
    try:
        return _shape_n(pid, macro, profile, gates, seed, heavy, cheap_later, styles, is_async, is_try, is_spawn, carrier, sstep)
    finally:
        _pf.STRIDE = 12


def _shape_n(pid, macro, profile, gates, seed, heavy, cheap_later, styles, is_async, is_try, is_spawn, carrier, sstep=False):
    pp = PP(macro, profile, carrier=carrier, can_fail=is_try, gates=gates, styles=styles)
    if sstep:
        pp.step_fn = "sstep"
    text = pp.text()
    msg = lambda t: "\"C09[%s]: %s\"" % (pid, t)
    L = [pp.decls(), "let mut fut = %s;" % text]
    L.append("vassert!(seq() == 0 && k_spawned() == 0, %s);" % msg("nothing is evaluated (and no task spawned) before the first poll"))
    maxd = max(profile)
    # polls needed when nothing fails: 1 + sum over steps of the max pending count of the step's active branches
    def stepmax(s):
        gs = [pp.gate(b, s) for b in active(profile, s)]
        gs = [g for g in gs if g != "0"]
        if not gs:
            return "0u8"
        e = gs[0]
        for g in gs[1:]:
            e = "max2(%s, %s)" % (e, g)
        return e
    need = " + ".join(["1u8"] + [stepmax(s) for s in range(maxd)])
    L.append("let need: u8 = %s;" % need)
    allok = pp.all_ok()
    L.append("let mut done = false; let mut res = None;")
    maxpolls = pp.max_polls()
    for k in range(1, maxpolls + 1):
        L.append("if !done {")
        L.append("    clear_woken();")
        L.append("    match poll_once(&mut fut) {")
        if is_spawn:
            # a task may already have been polled once when it was spawned (eager bit), so it can be earlier, never later
            ready_cond = "need >= %d" % k
        elif is_try:
            ready_cond = "(%s && need == %d) || (!(%s) && need >= %d)" % (allok, k, allok, k)
        else:
            ready_cond = "need == %d" % k
        L.append("        Poll::Ready(v) => { done = true; res = Some(v); vassert!(%s, %s); }" % (ready_cond,
                 msg("the future completes exactly when all its branches can complete (poll 1 + sum of per-step maxima; task-spawning kinds: not later)")))
        L.append("        Poll::Pending => { vassert!(woken(), %s); vassert!(need > %d, %s); }" % (msg("a pending poll comes with a wake-up of the macro's future"), k, msg("no lost progress: still pending although every branch could have completed")))
        L.append("    }")
        # independent progress in every step: step s starts after poll 1 + sum of the earlier steps' maxima; a branch whose own gate of
        # step s needs g pending polls has finished step s after poll 1 + base + g, whatever its siblings still wait for
        for s_ in range(maxd):
            base = " + ".join([stepmax(t) for t in range(s_)]) or "0u8"
            if s_ > 0 and (cheap_later or len(active(profile, s_)) < 2):
                continue
            for b in active(profile, s_):
                g = pp.gate(b, s_)
                cond = "(%s) + %s <= %d" % (base, "0u8" if g == "0" else g, k - 1)
                if is_spawn and s_ > 0:
                    continue    # (tasks may run ahead of the model's polls: later steps are covered by the completion bound only)
                if is_try:
                    # (a sibling may be dropped unpolled once another branch has failed)
                    L.append("    if %s && (%s) { vassert!(cnt(%d) == 1, %s); }" % (cond, allok, E(b, s_, 1), msg("a ready branch is not blocked by a pending sibling")))
                else:
                    L.append("    if %s { vassert!(cnt(%d) == 1, %s); }" % (cond, E(b, s_, 1), msg("a ready branch is not blocked by a pending sibling")))
        L.append("}")
    L.append("vassert!(done, %s);" % msg("the future completes within the maximal number of polls"))
    if not is_try:
        L.append("vassert!(res == Some(%s), %s);" % (pp.expected_success(), msg("value")))
    else:
        L.append("if %s { vassert!(res == Some(%s), %s); } else { vassert!(match res { Some(Err(_)) => true, _ => false }, %s); }" % (allok, pp.expected_success(), msg("value"), msg("failure value")))
    a = active(profile, 0)
    if len(a) >= 2 and gates:
        L.append("vcover!(%s < %s, \"branch 0 ready before the last branch\");" % (pp.gate(a[0], 0), pp.gate(a[-1], 0)))
        L.append("vcover!(%s > %s, \"last branch ready before branch 0\");" % (pp.gate(a[0], 0), pp.gate(a[-1], 0)))
    L.append("vcover!(need == %d, \"maximal number of polls needed\");" % maxpolls)
    desc = dict(macro=macro, shape="N", profile=list(profile), gates_pending_max=gates, polls=maxpolls,
                symbolic=["pending count of every gate", "payloads"] + (["failure flags"] if is_try else []) + (["eager-poll bit per task"] if is_spawn else []))
    return Program(pid, text, "    " + "\n    ".join(L), desc=desc, group="N/" + macro, role=dict(kind=macro), heavy=heavy, solo=True, unwind=12, weight=5)


def shape_f(pid, macro, nb, seed, heavy=False):
    """harness-controlled gates, stored wakers, symbolic opening batches, spurious polls"""
    is_async, is_try, is_spawn = KINDS[macro]
    msg = lambda t: "\"C09[%s]: %s\"" % (pid, t)
    L = []
    for b in range(nb):
        L.append("let %s = u();" % p(b, 0))
    val = (lambda b: "mk(true, %s)" % p(b, 0)) if is_try else (lambda b: p(b, 0))
    brs = ["fstep(%d, %d, %d, %s)" % (E(b, 0, 0), E(b, 0, 1), b, val(b)) for b in range(nb)]
    text = "%s! {\n        %s\n    }" % (macro, ",\n        ".join(brs))
    L.append("let mut fut = %s;" % text)
    L.append("vassert!(seq() == 0, %s);" % msg("nothing is evaluated before the first poll"))
    L.append("let mut done = false;")
    L.append("let mut open = [%s];" % ", ".join(["false"] * nb))
    rounds = nb + 1
    for k in range(rounds + 1):
        last = k == rounds
        L.append("if !done {")
        if last:
            # open everything that is still closed, then the final poll must be Ready
            for b in range(nb):
                L.append("    if !open[%d] { open[%d] = true; open_gate(%d); }" % (b, b, b))
        L.append("    let all_open = %s;" % " && ".join("open[%d]" % b for b in range(nb)))
        L.append("    clear_woken();")
        L.append("    let r = poll_once(&mut fut);")
        L.append("    vassert!(r.is_ready() == all_open, %s);" % msg("Ready exactly at the first poll with every pending point ready (no hang, no early completion)"))
        L.append("    if r.is_ready() { done = true; vassert!(r == Poll::Ready(%s), %s); }" % (
            ("Ok((%s))" if is_try else "(%s)") % ", ".join(p(b, 0) for b in range(nb)) if nb > 1 else (("Ok(%s)" if is_try else "%s") % p(0, 0)), msg("value")))
        if not last:
            L.append("    else {")
            L.append("        vassert!(!woken(), %s);" % msg("a gate that is still closed did not wake the future"))
            L.append("        let mut any = false;")
            for b in range(nb):
                L.append("        if !open[%d] && b() { any = any | gate_has_waker(%d); open[%d] = true; open_gate(%d); }" % (b, b, b, b))
            L.append("        vassert!(woken() == any, %s);" % msg("every wake-up of a branch reaches the macro's future (and only those)"))
            for b in range(nb):
                L.append("        vassert!(open[%d] || gate_has_waker(%d), %s);" % (b, b, msg("every pending branch has been polled and registered its waker (branches progress independently)")))
            L.append("    }")
        L.append("}")
    L.append("vassert!(done, %s);" % msg("completes under every wake-up order"))
    L.append("vcover!(gate_polls(0) >= 3, \"a spurious poll happened (gate 0 polled three times)\");")
    if nb >= 2:
        L.append("vcover!(gate_polls(%d) == 2 && gate_polls(0) >= 3, \"the last branch became ready before branch 0\");" % (nb - 1))
    desc = dict(macro=macro, shape="F", branches=nb, rounds=rounds, symbolic=["subset of closed gates opened after every poll (empty subset = spurious poll)", "payloads"])
    return Program(pid, text, "    " + "\n    ".join(L), desc=desc, group="F/" + macro, role=dict(kind=macro), heavy=heavy, solo=True, unwind=12, weight=5)


def shape_lazy(pid, macro, seed):
    """laziness with side-effecting blocks: block initial values, block operands (step 0 and later), handler definition"""
    is_async, is_try, is_spawn = KINDS[macro]
    msg = lambda t: "\"C09[%s]: %s\"" % (pid, t)
    v = (lambda x: "mk(true, %s)" % x) if is_try else (lambda x: x)
    ty_ = "Result<u8, u8>" if is_try else "u8"
    mp = (lambda k: "move |r: Result<u8, u8>| r.map(|v| v ^ %s)" % k) if is_try else (lambda k: "move |v: u8| v ^ %s" % k)
    text = ("%s! {\n        { ev(1); astep(2, 3, 0, %s) } |> { ev(4); %s },\n        { ev(5); ready(%s) } ~|> { ev(6); %s },\n        %s => { ev(7); move |a: u8, b: u8| %s }\n    }"
            % (macro, v("p0"), mp("k0"), v("p1"), mp("k1"), "map" if is_try else "then", "{ ev(8); a ^ b }" if is_try else "async move { ev(8); a ^ b }"))
    L = ["let p0 = u(); let p1 = u(); let k0 = u(); let k1 = u();", "let mut fut = %s;" % text]
    L.append("vassert!(seq() == 0 && k_spawned() == 0, %s);" % msg("no block initial value, block operand or handler expression is evaluated (and no task spawned) before the first poll"))
    L.append("let r = poll_once(&mut fut);")
    L.append("vassert!(r == Poll::Ready(%s), %s);" % ("Ok(p0 ^ k0 ^ p1 ^ k1)" if is_try else "p0 ^ k0 ^ p1 ^ k1", msg("value")))
    for e in (1, 2, 3, 4, 5, 6, 7, 8):
        L.append("vassert!(cnt(%d) == 1, %s);" % (e, msg("every block runs exactly once, after the first poll")))
    L.append("vcover!(true, \"end reached\");")
    return Program(pid, text, "    " + "\n    ".join(L), desc=dict(macro=macro, shape="lazy blocks"), group="lazy/" + macro, role=dict(kind=macro), solo=True, unwind=12, weight=3)


def programs(tier, seed):
    ps = programs_nf(tier, seed)
    i = len(ps)
    for macro in ("join_async", "try_join_async", "join_async_spawn", "try_join_async_spawn") + (("async_spawn", "try_async_spawn") if tier == "thorough" else ()):
        i += 1
        ps.append(shape_lazy("p%04d" % i, macro, seed))
    return ps


def programs_nf(tier, seed):
    ps = []
    i = 0
    if tier == "quick":
        plan_n = [("join_async", (1, 1), 1, False, False), ("try_join_async", (1, 1), 1, False, False), ("join_async", (1, 1, 1), 1, False, False),
                  ("join_async_spawn", (1, 1), 1, False, False), ("try_join_async_spawn", (1, 1), 1, False, False), ("join_async", (2, 1), 1, False, True),
                  ("join_async", (1,), 1, False, False), ("join_async", (2, 2), 1, False, "athen"),
                  # many steps: completion and wake-ups do not depend on how many steps there are (two-digit step numbers included)
                  ("join_async", (10,), 1, True, True), ("try_join_async", (9, 10), 1, True, True),
                  # two branches with REAL pending points in both steps (hand-written step futures instead of async fns)
                  ("join_async", (2, 2), 1, True, "sstep")]
        plan_f = [("join_async", 2, False), ("try_join_async", 2, False)]
    else:
        plan_n = [("join_async", (1, 1), 2, False, False), ("try_join_async", (1, 1), 2, False, False), ("join_async", (1, 1, 1), 2, True, False), ("try_join_async", (1, 1, 1), 1, True, False),
                  ("join_async_spawn", (1, 1), 2, True, False), ("try_join_async_spawn", (1, 1), 1, False, False), ("join_async_spawn", (1, 1, 1), 1, True, False),
                  ("async_spawn", (1, 1), 1, False, False), ("try_async_spawn", (1, 1), 1, False, False),
                  ("join_async", (2, 1), 1, True, False), ("join_async", (2, 2), 1, True, True), ("try_join_async", (2, 1), 1, True, False), ("join_async", (1, 2), 1, True, False),
                  ("join_async", (1,), 2, False, False), ("join_async", (2,), 1, False, False),
                  ("join_async", (2, 2), 1, True, "athen"), ("join_async", (1, 2, 2), 1, True, "athen"),
                  # (measured under load: (2, 2) under join_async_spawn! with `->` steps and under try_join_async! with `=>` async-fn steps hit the caps; the sstep forms below replace them)
                  # (measured: (2, 2) with real pending points in both later steps exceeds the 12 GB cap; (11, 9) under join_async_spawn! does not finish in 1200 s)
                  ("join_async", (10,), 1, True, True), ("try_join_async", (9, 10), 1, True, True), ("join_async", (12, 3, 12), 1, True, True),
                  # (measured: with gates <= 2, three branches, try_join_async! or join_async_spawn! the two-step sstep form still exceeds the 12 GB cap)
                  ("join_async", (2, 2), 1, True, "sstep")]
        plan_f = [("join_async", 2, False), ("try_join_async", 2, False), ("join_async", 3, True), ("try_join_async", 3, True)]
    for macro, prof, gates, heavy, cheap in plan_n:
        i += 1
        ps.append(shape_n("p%04d" % i, macro, prof, gates, seed, heavy=heavy, cheap_later=(cheap is True), athen=(cheap == "athen"), sstep=(cheap == "sstep")))
    for macro, nb, heavy in plan_f:
        i += 1
        ps.append(shape_f("p%04d" % i, macro, nb, seed, heavy=heavy))
    return ps


def generate(tier, seed):
    return pack("c09", programs(tier, seed), 1)


META = dict(
    level="model_checking",
    rule="programs listed in gen_c09.py: lazy-blocks programs (side-effecting block initial values, block operands of step 0 and 1 and handler expression must not run before the first poll), shape N (symbolic pending count per gate, poll-by-poll assertions) for the async and task-spawning macros, shape F (harness-opened gates with stored wakers, "
         "symbolic opening batches incl. empty = spurious poll) for join_async!/try_join_async!; one program per query; non-trivial = passed with witnesses (both readiness orders, maximal poll count, "
         "a spurious poll, last branch ready first); distinct = distinct invocation texts",
    functions_encoded=["expansions of join_async!, try_join_async!, join_async_spawn!, try_join_async_spawn!, async_spawn!, try_async_spawn! (Box::pin(async move ..), futures join!/try_join!, __spawn_tokio)",
                       "rt executor (root waker, poll_once), GateN, GateF", "tokio model (spawn kinds)"],
    bounds=["quick: <= 3 branches, 1 step (one 2-step program), gates pending <= 1; thorough: gates pending <= 2, 2 steps", "shape F: 2 (quick) / 3 branches, branches+1 opening rounds"],
    outside=["> 3 branches, > 2 steps, > 2 pending polls per gate", "real tokio: for the task-spawning macros the wake-up clause is a property of the runtime model and is not claimed (only laziness, progress and completion under the model)"],
    assumptions=["executor / gate futures of rt.rs", "tokio model of DESIGN.md 2.2", "futures 0.3.26 as compiled"],
)
