#!/usr/bin/env python3
"""Regenerates /verif/MANIFEST.json from the table below (python3 -m jv.manifest)."""
import json
import os

VERIF = os.path.dirname(os.path.dirname(os.path.abspath(__file__)))

TRUST = ("Trusted: rustc (Kani's pinned nightly; stock toolchain for the native replay), kani-compiler's MIR->GOTO translation, CBMC 6.11 + CaDiCaL, "
         "futures 0.3.26 as compiled, proc-macro2 1.0.106 == 1.0.51 for this crate, the environment models of DESIGN.md 2.2 "
         "(sequential thread model with symbolic early/late bits, tokio::spawn model, byte-level format! model, gate futures + executor), "
         "and the oracle written next to each macro call. The program (operator sequence, depth profile, options) is enumerated, not symbolic: "
         "the expander itself cannot be executed symbolically here (DESIGN.md 1.1).")

CHECKS = {
    "C05": dict(
        level="model_checking", ref="3 (C05), 5.1",
        text="Bounded model checking of the real expansions: for every generated try-macro program (all depth profiles with <= 3 branches x <= 3 steps in the quick tier, "
             "<= 4 x 3 thorough; Option and Result carriers; try_join!, try_join_spawn!, try_join_async!, try_join_async_spawn!) one CBMC query over ALL placements of "
             "failures and payloads at every (branch, step) position, all early/late thread placements and all gate pending counts shows the result equals the closed-form "
             "first failure (earliest step, lowest active branch; for async: a branch failing in the earliest failing step). Counterexamples are replayed natively before being reported.",
        technique="Kani/CBMC bounded model checking of macro expansions (symbolic inputs and schedules), closed-form oracle, native replay"),
}

CHECKS.update({
    "C03": dict(
        level="model_checking", ref="3 (C03)",
        text="Bounded model checking of the real expansions of all eight macro kinds: an event clock stamps every initial expression, callback, block capture and async "
             "enter/exit; for every generated multi-step program one CBMC query over all payloads and ALL schedules of the model (early/late placement of every thread, "
             "pending count of every gate, eager/lazy first poll of every task) shows every item of step k+1 is stamped after the last item of step k of every active branch, "
             "and the result shows each branch continued from its own previous value.",
        technique="Kani/CBMC bounded model checking of macro expansions with symbolic schedules (thread/task/gate models), event-order monitors"),
    "C04": dict(
        level="model_checking", ref="3 (C04)",
        text="Bounded model checking: for every depth profile (<= 3x3 quick, <= 4x3 thorough) under join!/try_join!/join_spawn!/try_join_spawn! and listed profiles under the four async kinds, "
             "same-typed branches xor a symbolic payload in at every position; one CBMC query per packed group shows for ALL payloads that element i of the result (and argument i of a "
             "handler that reverses its arguments) is branch i's own final value, with and without handler and `let` patterns.",
        technique="Kani/CBMC bounded model checking of macro expansions, symbolic payload tagging"),
    "C06": dict(
        level="model_checking", ref="3 (C06)",
        text="Bounded model checking of try-macro expansions with counters on every initial expression, callback, second action, block capture and handler: for ALL placements of failures "
             "(and thread schedules / gate counts) an item of step s runs exactly once iff no earlier step failed and never after a failed step; the handler runs iff nothing failed; "
             "in sync/thread kinds the failing step runs to its end in every active branch.",
        technique="Kani/CBMC bounded model checking of macro expansions, execution-count monitors vs closed-form failing step"),
})

CHECKS.update({
    "C12": dict(
        level="model_checking", ref="3 (C12)",
        text="Bounded model checking: for depth profiles <= 3x3 and subsets of named branches, every later position is a block capture that snapshots one of the `let` names; "
             "one CBMC query per packed group shows for ALL payloads (and thread schedules) that the result equals the unnamed oracle and that each snapshot equals the named branch's "
             "value after its most recent step (also after it finished), still wrapped in try macros.",
        technique="Kani/CBMC bounded model checking of macro expansions, snapshot monitors in block captures"),
    "C13": dict(
        level="model_checking", ref="3 (C13)",
        text="Bounded model checking: legal (macro kind x handler kind) combinations x branch shapes x handler written first/second/last; symbolic outcome of every position and of the "
             "and_then handler itself; asserts call count (map/and_then iff all succeeded, then always once), argument order (handler reverses its arguments), result shape, and for async "
             "macros that the future returned by then/and_then (awaiting a gate with a symbolic pending count) is awaited. The compile-time rejection clause is not decided.",
        technique="Kani/CBMC bounded model checking of macro expansions, handler call counters and closed-form results"),
})

CHECKS.update({
    "C01": dict(
        level="translation_validation", ref="3 (C01), Appendix A",
        text="Translation validation of the real expansions against the documented plain-Rust method chain, written independently from the documentation table: every operator alone on every "
             "input type it types on, every typeable ordered operator pair (sampled in the quick tier), sampled chains of 3-6 operators, chains under try/spawn/alias names as only and as second "
             "branch, future-level chains under the six async names. One CBMC query per packed group decides equality of values AND callback traces for ALL symbolic inputs (carrier states, "
             "iterator elements, thresholds). A well-typed program whose expansion does not build is reported as a build-stage violation.",
        technique="Kani/CBMC equivalence checking of macro expansion vs documented method chain over symbolic inputs (translation validation)"),
})

CHECKS.update({
    "C02": dict(
        level="translation_validation", ref="3 (C02)",
        text="Translation validation of `X >>> inner <<< rest` against hand-nested closures `.x(|v| v inner) rest` for each of the ten wrapper-capable operators, nesting depth 1-3, inner chains "
             "(empty, one, two operators, with block capture) and the three closing styles (explicit, implicit at end of branch, implicit at a ~ step boundary followed by outer operators); one CBMC "
             "query per packed group decides equality of values and callback traces for ALL symbolic inputs. Rejection cases are not decided.",
        technique="Kani/CBMC equivalence checking of macro expansion vs hand-nested method chain over symbolic inputs (translation validation)"),
    "C14": dict(
        level="translation_validation", ref="3 (C14)",
        text="Partial: the parser cannot be executed symbolically, so what is decided is the consequence the user relies on. Programs whose operands contain operator look-alikes (closure return "
             "types, turbofish commas, generic >>, qualified paths, look-alikes inside () [] {} / match arms / nested join! / string and char literals, or-patterns, shifts, ranges), adjacent operators "
             "of overlapping families with and without ~, and commas / handlers directly after operand-less operators are compared with the documented method chain for ALL symbolic inputs; a mis-split "
             "that still builds is a solver counterexample, one that no longer builds a build-stage violation.",
        technique="Kani/CBMC equivalence checking of macro expansion vs documented chain on adversarial operand catalogue (translation validation)"),
})

CHECKS.update({
    "C10": dict(
        level="model_checking", ref="3 (C10)",
        text="Bounded model checking over move-only payloads (a token type without Clone/Copy whose drops are counted): every operator alone, sampled multi-step chains and the wrapper family, "
             "under join!/join_spawn! as only or second branch, are compared with the reference chain for ALL symbolic inputs on values, per-callback call counts, arguments and call order, and after "
             "both sides went out of scope created == dropped (count and value sum). Profile programs with init blocks, captures at every later position, second actions and handlers show each item "
             "runs exactly once when reached and never otherwise. A Clone/Copy requirement would be a build-stage violation.",
        technique="Kani/CBMC bounded model checking of macro expansions with call/drop counters vs reference chain"),
})

CHECKS.update({
    "C11": dict(
        level="model_checking", ref="3 (C11)",
        text="Bounded model checking with an event clock: 21 operator sites (every operator that takes expression operands, both operands of fold/try_fold, block initial values) x step 0/1 x wrapper "
             "depth 0-2 under join!/try_join!/join_spawn!, plus future-level sites under join_async!/try_join_async!; two-branch programs whose block operands log their evaluation. For ALL symbolic inputs "
             "(and thread schedules) each block is evaluated exactly once when its step is reached, after every event of the previous step, before every callback of its own step, in "
             "branch-then-position(-then-operand) order, and the value it produced is the operand actually used (value equality with the reference chain).",
        technique="Kani/CBMC bounded model checking of macro expansions, capture/callback event-order monitors"),
})

CHECKS.update({
    "C08": dict(
        level="model_checking", ref="3 (C08)",
        text="Bounded model checking over the sequential thread model with byte-level format! rendering: for every profile <= 3x3 under join_spawn!/try_join_spawn! (callers named main / t / unnamed), "
             "programs with a symbolic parent name (<= 3 symbolic bytes) under spawn!/try_spawn!/join_spawn!, nested spawn macros (3 levels) and a 12-branch program, one CBMC query over all payloads, "
             "failure flags and early/late placements shows: the op log of each executed multi-branch step is S(i1)..S(in) J(i1)..J(in); every item runs on thread id = spawn ordinal with name "
             "<parent>_join_<branch> byte for byte; single-branch steps and between-step captures run on the caller with no thread alive; joined == spawned at the end.",
        technique="Kani/CBMC bounded model checking of macro expansions over a sequential thread model with symbolic placement bits"),
})

CHECKS.update({
    "C07": dict(
        level="translation_validation", ref="3 (C07)",
        text="Differential check: the same generated program text is expanded under both macro names of each pair (join/join_spawn, try_join/try_join_spawn, the async pairs, and the four aliases "
             "spawn/try_spawn/async_spawn/try_async_spawn against the names they stand for) inside one harness; one CBMC query over all symbolic payloads, failures and thread/task placements shows "
             "equal results, equal per-position call counts and, for aliases, equal numbers of threads/tasks spawned. Single-branch two-step programs with a failing first step make a wrong try-flag of an "
             "alias a solver counterexample.",
        technique="Kani/CBMC differential equivalence checking of two macro names on the same program text and symbolic inputs"),
    "C18": dict(
        level="fault_enumeration", ref="3 (C18)",
        text="Partial, decided for the two mechanisms the property is anchored in: the fault bit of every spawned model thread / task is symbolic, so one CBMC query per program covers every subset "
             "of panicking threads (tasks) together with every placement; the check requires that the ONLY failing checks are the expansion's own `join().unwrap()` panic (resp. the `tokio JoinHandle "
             "failed` panic), that no later-step expression runs after a failed join and that the macro never completes with an injected fault. Panics raised on the calling thread are language "
             "semantics under panic=abort and are not decided.",
        technique="Kani/CBMC bounded model checking with symbolic fault bits in the thread/task models; expected-failure set comparison"),
})

CHECKS.update({
    "C09": dict(
        level="model_checking", ref="3 (C09)",
        text="Bounded model checking under a controlling executor: gate futures with SYMBOLIC pending counts (shape N) and harness-opened gates with stored wakers where the harness opens a SYMBOLIC "
             "subset of closed gates after every poll, the empty subset being a spurious poll (shape F). One CBMC query per program shows for all readiness orders and batches: nothing is evaluated "
             "and no task spawned before the first poll; after poll k every branch that could finish has finished (a pending branch never blocks a ready sibling); every pending poll comes with a "
             "root wake-up and every stored waker that is called notifies the root (and only those); Ready arrives exactly at the first poll at which every branch can complete.",
        technique="Kani/CBMC bounded model checking of macro expansions under a deterministic executor with symbolic readiness (gate futures, stored wakers)"),
    "C16": dict(
        level="model_checking", ref="3 (C16), 5.2",
        text="Bounded model checking of option programs: every permutation (quick: first and last) of each legal option set per macro kind x profiles with equal and differing depths. Logging / "
             "marking joiners decide: the joiner runs exactly once per executed multi-branch step, with exactly the active branches in branch order, and its output is the step result (position marks "
             "arrive in the result, C05's closed form otherwise); lazy_branches(true) hands over zero-argument closures (reverse call order observed on the event clock); transpose_results(false) "
             "uses the joiner's already transposed Result in every step; programs with futures_crate_path build and verify in a second harness crate that has futures only under a renamed package. "
             "The 'each at most once' rejection clause is not decided.",
        technique="Kani/CBMC bounded model checking of macro expansions with logging joiners; renamed-futures harness crate for the path option"),
})

CHECKS.update({
    "C17": dict(
        level="translation_validation", ref="3 (C17)",
        text="Translation validation against closed forms: a 12 x 12 (thorough 24 x 24) one-step program with block captures at (branch, position) pairs whose decimal concatenations collide and block "
             "operands on both fold positions, a 12-step program, every ordered pair of the 12 macro names with the inner macro in an operand / block capture / handler (quick: a quarter, seed-rotated; "
             "async inside sync through one poll), seed-sampled depth-3 triples, and programs whose closures use identifiers spelled like internal names. One CBMC query per packed group decides the "
             "value for ALL symbolic scalars.",
        technique="Kani/CBMC equivalence checking of macro expansion vs closed form (large index programs, nested macro pairs)"),
    "C19": dict(
        level="model_checking", ref="3 (C19)",
        text="Allocation claim: with kani::stub the entry points std::alloc::{alloc, alloc_zeroed, realloc} are replaced by counting wrappers; for profile programs and sampled non-allocating operator "
             "chains under join!/try_join! one CBMC query shows the counter is 0 right after the macro for ALL inputs (a positive witness with Box::new / Vec growth must count 1 and 2). Bounds claim: "
             "programs over &mut / & borrows of the caller's stack and a move-only !Send !Sync struct under join!, try_join!, join_async!, try_join_async! must build (a new Clone / Send / 'static "
             "bound is a build-stage violation) and the solver checks their values and the effects of the mutable borrows.",
        technique="Kani/CBMC bounded model checking with allocation-counting stubs; type checking of move-only / borrowing programs by construction"),
})

NOT_APPLICABLE = {
    "C15": "Quantifies over token streams fed to the expander and has no run-time dimension; deciding it needs symbolic execution of JoinInputDefault::parse + generate_join, "
           "and Kani 0.68 ICEs on proc_macro2::Ident::new / does not finish pushing one token into a TokenStream in 900 s (DESIGN.md 1.1, 4). A hand model of the parser would not be the repository's code.",
    "C20": "Same code, same obstacle: the claim is about repeated/concurrent executions of generate_join, which no solver-based engine on this image can execute symbolically; "
           "'no statics / no hash iteration' would be a syntactic audit, not a solver verdict (DESIGN.md 4).",
}
PENDING = "check under construction in this session (design in DESIGN.md 3); not claimed until its quick tier passes on the unchanged tree"
ALL = ["C%02d" % i for i in range(1, 21)]


def main():
    checks = []
    for pid in ALL:
        c = CHECKS.get(pid)
        if not c:
            continue
        checks.append(dict(
            property_id=pid,
            quick_cmd="./check %s --tier quick" % pid,
            thorough_cmd="./check %s --tier thorough" % pid,
            evidence_file="evidence/%s.json" % pid,
            replay_cmd_template="./check %s --replay {path}" % pid,
            engine="kani-expansions",
            level_claimed=dict(category=c["level"], text=c["text"], design_ref="DESIGN.md section " + c["ref"]),
            level_note=TRUST,
            technique=c["technique"],
        ))
    na = []
    for pid in ALL:
        if pid in CHECKS:
            continue
        na.append(dict(property_id=pid, reason=NOT_APPLICABLE.get(pid, PENDING)))
    m = dict(
        version=1,
        setup_cmd="./setup.sh",
        hooks=dict(guard="none", enable="no source hooks: the harness crate depends on /repo/join by path and invokes the real proc macros",
                   baseline_off_cmd="cd /repo && cargo test --workspace --no-fail-fast --offline --lib --tests",
                   source_commits=[], add_only=True),
        engines=[dict(name="kani-expansions", path="check", serves_properties=sorted(CHECKS),
                      kind_free_text="Python generator of typed DSL programs -> Rust harness crate (path dependency on /repo/join) -> cargo kani (CBMC/CaDiCaL) -> "
                                     "JSON report -> concrete playback -> native replay with the stock toolchain")],
        checks=checks,
        notes="Exit codes of every check: 0 = all queries discharged and all vacuity witnesses satisfied; 1 = reproduced violation(s), one VIOLATION line each; "
              "2 = inconclusive (timeout, memory cap, unwinding failure, model gap, counterexample that does not reproduce natively). "
              "Work and target directories live under /var/tmp/join-verif (JV_WORK); JOIN_REPO overrides /repo.",
        not_applicable=na,
    )
    with open(os.path.join(VERIF, "MANIFEST.json"), "w") as f:
        json.dump(m, f, indent=1)
    print("MANIFEST.json: %d checks, %d not_applicable" % (len(checks), len(na)))


if __name__ == "__main__":
    main()
