"""C05 - try macros: all-success tuple, otherwise the first failure, unchanged.

One harness per (macro, carrier, depth profile).  Symbolic: ok flag and payload at every (branch, step)
position, early/late bit of every model thread, pending count of every gate (async).  Oracle: closed form
written from the property statement (scan steps in order, active branches in index order).
"""
from .driver import Program, pack
from .profiles import *

STYLES = ["and_then", "map_and_then", "then"]


def sync_branch(b, d, carrier, style_of, events=True):
    mkf = "mk" if carrier == "res" else "mo"
    ty = "Result<u8, u8>" if carrier == "res" else "Option<u8>"
    parts = ["%s(%s, %s)" % (mkf, o(b, 0), p(b, 0))]
    for s in range(1, d):
        st = style_of(b, s)
        e = "ev(%d); " % E(b, s) if events else ""
        if st == "and_then":
            parts.append("~=> move |v: u8| { %s%s(%s, v ^ %s) }" % (e, mkf, o(b, s), p(b, s)))
        elif st == "map_and_then":
            parts.append("~|> move |v: u8| v ^ %s => move |v: u8| { %s%s(%s, v) }" % (p(b, s), e, mkf, o(b, s)))
        else:
            parts.append("~-> move |r: %s| { %sr.and_then(|v| %s(%s, v ^ %s)) }" % (ty, e, mkf, o(b, s), p(b, s)))
    return " ".join(parts)


def async_branch(b, d, carrier, style_of):
    parts = ["astep(%d, %d, %s, mk(%s, %s))" % (E(b, 0, 0), E(b, 0, 1), n(b, 0), o(b, 0), p(b, 0))]
    for s in range(1, d):
        st = style_of(b, s)
        if st == "map_and_then":
            parts.append("~|> move |r: Result<u8, u8>| r.map(|v| v ^ %s) => move |v: u8| astep(%d, %d, %s, mk(%s, v))" % (p(b, s), E(b, s, 0), E(b, s, 1), n(b, s), o(b, s)))
        else:
            parts.append("~=> move |v: u8| astep(%d, %d, %s, mk(%s, v ^ %s))" % (E(b, s, 0), E(b, s, 1), n(b, s), o(b, s), p(b, s)))
    return " ".join(parts)


def ok_tuple(profile):
    vals = [val(b, d - 1) for b, d in enumerate(profile)]
    return vals[0] if len(vals) == 1 else "(" + ", ".join(vals) + ")"


def spec_sync(profile, carrier):
    """closed form: first failing step, lowest active branch"""
    some = "Ok" if carrier == "res" else "Some"
    out = []
    for s in range(max(profile)):
        for b in active(profile, s):
            fail = "Err(%s)" % val(b, s) if carrier == "res" else "None"
            out.append("if !%s { %s }" % (o(b, s), fail))
    out.append("{ %s(%s) }" % (some, ok_tuple(profile)))
    return " else ".join(out)


def prior_ok(profile, s_lim, extra_step=None, upto_branch=None):
    """conjunction: every position in steps < s_lim is ok"""
    cs = []
    for s in range(s_lim):
        for b in active(profile, s):
            cs.append(o(b, s))
    return cs


def covers(profile):
    out = []
    maxd = max(profile)
    # a failure in a non-final step while a lower-numbered branch has already finished
    done = False
    for s in range(1, maxd - 1 + 1):
        if s >= maxd - 1 and False:
            break
        act = active(profile, s)
        for b in act:
            if s < maxd - 1 and any(profile[l] <= s for l in range(b)):
                cs = prior_ok(profile, s) + [o(x, s) for x in act if x < b] + ["!" + o(b, s)]
                out.append(("vcover!(%s, \"failure in a non-final step after a lower-numbered branch finished\");" % " && ".join(cs)))
                done = True
                break
        if done:
            break
    # two failures in the same step
    for s in range(maxd):
        act = active(profile, s)
        if len(act) >= 2:
            cs = prior_ok(profile, s) + ["!" + o(act[0], s), "!" + o(act[-1], s)]
            out.append("vcover!(%s, \"two branches fail in the same step\");" % " && ".join(cs))
            break
    return out


def gen_sync(pid, macro, profile, carrier, seed, idx):
    r = rng(seed, pid)
    styles = {}

    def style_of(b, s):
        if (b, s) not in styles:
            styles[(b, s)] = STYLES[(idx + b + 2 * s + r.randrange(3)) % 3]
        return styles[(b, s)]
    branches = [sync_branch(b, d, carrier, style_of, events=False) for b, d in enumerate(profile)]
    prog = "%s! {\n        %s\n    }" % (macro, ",\n        ".join(branches))
    body = """    %s%s
    let r = %s;
    let expect = %s;
    vassert!(r == expect, "C05[%s]: result is the all-success tuple or the first failure (earliest step, lowest branch), payload unchanged");
    %s
    vcover!(r.%s, "all branches succeed");
    vcover!(!r.%s, "some branch fails");""" % (
        "names_off();\n    " if KINDS[macro][2] else "", decl(profile), prog, spec_sync(profile, carrier), pid, "\n    ".join(covers(profile)),
        "is_ok()" if carrier == "res" else "is_some()", "is_ok()" if carrier == "res" else "is_some()")
    spawn = KINDS[macro][2]
    if spawn and len(profile) > 1:
        body += "\n    vcover!(t_late() > 0 && t_early() > 0, \"some thread runs early and some late\");"
    desc = dict(macro=macro, profile=list(profile), carrier=carrier, styles={"%d,%d" % k: v for k, v in styles.items()},
                symbolic=["ok flag and payload at each of the %d (branch, step) positions" % sum(profile)] + (["early/late bit per spawned thread"] if spawn else []))
    return Program(pid, prog, body, desc=desc, group="%s/%s" % (macro, carrier),
                   role=dict(kind=macro, carrier=carrier))


def shape_class(profile):
    if len(set(profile)) == 1:
        return "equal depths"
    return "differing depths"


def gen_async(pid, macro, profile, gates, seed, idx, heavy):
    r = rng(seed, pid)
    styles = {}

    def style_of(b, s):
        if (b, s) not in styles:
            styles[(b, s)] = ["and_then", "map_and_then"][(idx + b + s + r.randrange(2)) % 2]
        return styles[(b, s)]
    branches = [async_branch(b, d, "res", style_of) for b, d in enumerate(profile)]
    prog = "%s! {\n        %s\n    }" % (macro, ",\n        ".join(branches))
    maxd = max(profile)
    maxpolls = 1 + gates * maxd
    # spec: earliest failing step; exact when one branch fails there, else one of the failing payloads
    lines = []
    lines.append("let (r, polls, lost) = drive(&mut fut, %d);" % maxpolls)
    lines.append("vassert!(r.is_some(), \"C05/C09: future completes within 1 + sum of per-step maxima polls\");")
    lines.append("let r = r.unwrap();")
    lines.append("vassert!(!lost, \"C09: a pending poll always comes with a wake-up\");")
    chain = []
    for s in range(maxd):
        act = active(profile, s)
        fails = ["!" + o(b, s) for b in act]
        anyfail = " || ".join(fails)
        nf = " + ".join("(%s) as u8" % f for f in fails)
        one_of = " || ".join("(!%s && r == Err(%s))" % (o(b, s), val(b, s)) for b in act)
        chain.append("if %s { vassert!(%s, \"C05 async: the failure of a branch failing in the earliest failing step is returned unchanged\"); }" % (anyfail, one_of))
    chain.append("{ vassert!(r == Ok(%s), \"C05 async: all-success tuple\"); }" % ok_tuple(profile))
    lines.append(" else ".join(chain))
    # witness: a later branch fails first in time
    cov = []
    for s in range(maxd):
        act = active(profile, s)
        if len(act) >= 2 and gates >= 1:
            a, c = act[0], act[-1]
            cs = prior_ok(profile, s) + ["!" + o(a, s), "!" + o(c, s), "%s < %s" % (n(c, s), n(a, s)), "r == Err(%s)" % val(c, s), "%s != %s" % (val(a, s), val(c, s))]
            cov.append("vcover!(%s, \"a higher-numbered branch fails first in time and is the one reported\");" % " && ".join(cs))
            break
    cov.append("vcover!(r.is_ok(), \"all branches succeed\");")
    body = """    %s
    let mut fut = %s;
    vassert!(seq() == 0, "C09: nothing is evaluated before the first poll");
    %s
    %s""" % (decl(profile, gates=gates), prog, "\n    ".join(lines), "\n    ".join(cov))
    desc = dict(macro=macro, profile=list(profile), carrier="res", gates_pending_max=gates, max_polls=maxpolls,
                symbolic=["ok flag, payload and pending count (<= %d) at each of the %d positions" % (gates, sum(profile))] + (["eager-poll bit per spawned task"] if KINDS[macro][2] else []))
    return Program(pid, prog, body, desc=desc, unwind=max(12, maxpolls + 2, len(profile) + 2), heavy=heavy, solo=True, group="%s/async" % macro,
                   role=dict(kind=macro, carrier="res"))


def gen_recover(pid, macro, shape, carrier):
    """a failure stays a failure: a branch fails in a step in which it is the ONLY active branch (and which is not the last step); its next
    step acts on the error side (`~<=` / `~<|` would recover, `~->` sees the raw value).  The macro still returns that failure, unchanged, and the
    later step never runs.  shape 'two': branch 0 has three steps, branch 1 one; shape 'one': a single three-step branch"""
    is_async, is_try, is_spawn = KINDS[macro]
    EV = 40
    res = carrier == "res"
    mkf = "mk" if res else "mo"
    fail = (lambda v: "Err(%s)" % v) if res else (lambda v: "None")
    if is_async:
        assert res
        b0 = ("ready(mk(o00, p0)) ~=> move |v: u8| ready(mk(o01, v ^ p1)) ~<= move |e: u8| { ev(%d); ready(mk(true, e ^ 7)) }" % EV)
        b1 = "ready(mk(o10, q0))"
    else:
        rec = {"or_else": ("~<= move |e: u8| { ev(%d); mk(true, e ^ 7) }" % EV) if res else ("~<= move || { ev(%d); mo(true, 7) }" % EV),
               "or": "~<| lv(%d, %s(true, 9))" % (EV, mkf),
               "then": "~-> move |r: %s| { ev(%d); r }" % ("Result<u8, u8>" if res else "Option<u8>", EV)}[shape[1]]
        b0 = "%s(o00, p0) ~=> move |v: u8| %s(o01, v ^ p1) %s" % (mkf, mkf, rec)
        if len(shape) > 2 and shape[2] == "filter":
            # the failing step consists of a FILTER only (`Option::filter` turns Some into None): value-level operators can fail a step too
            b0 = "mo(o00, p0 ^ p1) ~?> move |v: &u8| { ev(%d); o01 } %s" % (EV + 1, rec)
        b1 = "%s(o10, q0)" % mkf
    two = shape[0] == "two"
    text = "%s! {\n        %s%s\n    }" % (macro, b0, (",\n        " + b1) if two else "")
    msg = lambda t: "\"C05[%s]: %s\"" % (pid, t)
    L = ["names_off();" if is_spawn and not is_async else "", "let o00 = b(); let o01 = b(); let o10 = b(); let p0 = u(); let p1 = u(); let q0 = u();"]
    if is_async:
        L.append("let mut fut = %s;" % text)
        L.append("let (r, polls, lost) = drive(&mut fut, 4);")
        L.append("vassert!(r.is_some(), %s);" % msg("completes"))
        L.append("let r = r.unwrap();")
    else:
        L.append("let r = %s;" % text)
    okv = "(p0 ^ p1, q0)" if two else "p0 ^ p1"
    wrap = "Ok(%s)" % okv if res else "Some(%s)" % okv
    if two:
        if is_async:
            L.append("if !o00 && !o10 { vassert!(r == Err(p0) || r == Err(q0), %s); } else if !o00 { vassert!(r == Err(p0), %s); } else if !o10 { vassert!(r == Err(q0), %s); }" % (msg("first failing step"), msg("first failing step"), msg("first failing step")))
            L.append("if o00 && o10 { vassert!(r == if !o01 { %s } else { %s }, %s); }" % (fail("p0 ^ p1"), wrap, msg("a failure in a step with a single active branch is returned unchanged (a later error-side step does not recover it)")))
        else:
            L.append("vassert!(r == if !o00 { %s } else if !o10 { %s } else if !o01 { %s } else { %s }, %s);" % (fail("p0"), fail("q0"), fail("p0 ^ p1"), wrap, msg("the first failure is returned unchanged, also when it happens in a step with a single active branch that a later error-side step could recover")))
    else:
        L.append("vassert!(r == if !o00 { %s } else if !o01 { %s } else { %s }, %s);" % (fail("p0"), fail("p0 ^ p1"), wrap, msg("single-branch try macro: the first failing step's failure is returned unchanged")))
    # (`~<| expr`: the operand is an ordinary eager expression of its step - evaluated exactly when the step is reached, like the `~->` callback)
    if not (not is_async and shape[1] in ("then", "or")):
        L.append("vassert!(cnt(%d) == 0, %s);" % (EV, msg("an error-side action of a later step never runs: a step is reached only with a success")))
    else:
        L.append("vassert!(cnt(%d) == (o00 && o01%s) as u8, %s);" % (EV, " && o10" if two else "", msg("the step after a failed step does not run")))
    L.append("vcover!(o00 && %s!o01, \"failure in the step with a single active branch\");" % ("o10 && " if two else ""))
    L.append("vcover!(o00 && %so01, \"all succeed\");" % ("o10 && " if two else ""))
    return Program(pid, text, "    " + "\n    ".join(l for l in L if l), desc=dict(macro=macro, shape=list(shape), carrier=carrier, symbolic=["ok flags", "payloads"]),
                   group="recover/" + macro, role=dict(kind=macro, shape="single-active-non-final"), unwind=64 if not is_async else 12, solo=is_async, weight=2)


def generate(tier, seed):
    return pack("c05", programs(tier, seed), 6 if tier == "quick" else 8)


def programs(tier, seed):
    hs = []
    i = 0
    profs = profiles(3, 3) if tier == "quick" else profiles(4, 3)
    for macro in ("try_join", "try_join_spawn"):
        for carrier in ("res", "opt"):
            for prof in profs:
                if tier == "quick" and macro == "try_join_spawn" and carrier == "opt" and max(prof) > 2:
                    continue
                if tier == "thorough" and len(prof) == 4 and carrier == "opt" and (i % 2):
                    i += 1
                    continue
                i += 1
                hs.append(gen_sync("p%04d" % i, macro, prof, carrier, seed, i))
    # async: one-step and two-step programs
    if tier == "quick":
        aprofs = [((1, 1), 1, False), ((1, 1, 1), 1, False), ((1, 2), 1, False)]
        amacros = ["try_join_async"]
        sprofs = [((1, 1), 1, False)]
    else:
        # (two branches with a pending later step each exceed the 12 GB cap: measured)
        aprofs = [((1, 1), 2, False), ((1, 1, 1), 2, True), ((2, 1), 1, True), ((1, 2), 1, True), ((2, 1, 1), 1, True), ((1, 1, 2), 1, True)]
        amacros = ["try_join_async"]
        sprofs = [((1, 1), 1, False), ((1, 1, 1), 1, True), ((1, 2), 1, True)]
    for macro in amacros:
        for prof, gates, heavy in aprofs:
            i += 1
            hs.append(gen_async("p%04d" % i, macro, prof, gates, seed, i, heavy))
    for prof, gates, heavy in sprofs:
        i += 1
        hs.append(gen_async("p%04d" % i, "try_join_async_spawn", prof, gates, seed, i, heavy))
    i = 800
    for macro in ("try_join", "try_join_spawn", "try_join_async"):
        for n_ in ("two", "one"):
            for rec in (("or_else", "or", "then") if macro != "try_join_async" else ("or_else",)):
                for carrier in (("res", "opt") if macro == "try_join" else ("res",)):
                    i += 1
                    if tier == "quick" and macro != "try_join" and (i + seed) % 2:
                        continue
                    hs.append(gen_recover("p%04d" % i, macro, (n_, rec), carrier))
            if macro != "try_join_async":
                for rec in ("or_else", "or"):
                    i += 1
                    if tier == "quick" and macro != "try_join" and (i + seed) % 2:
                        continue
                    hs.append(gen_recover("p%04d" % i, macro, (n_, rec, "filter"), "opt"))
    return hs


META = dict(
    level="model_checking",
    rule="one Kani query per generated program (macro kind x carrier x depth profile, step-action styles rotated by seed); "
         "a program is non-trivial when it passed and all its vacuity witnesses (all succeed / some fail / two failures in one step / "
         "failure after a finished lower branch / thread early+late) were satisfied; distinct = distinct macro invocation texts",
    functions_encoded=["expansion of try_join!, try_join_spawn!, try_join_async!, try_join_async_spawn! (JoinOutput::join_steps per-step success check, "
                       "generate_results_transposer, futures::try_join! re-wrapping)", "mstd::thread model", "tokio model", "rt::drive/GateN"],
    bounds=["branches <= 3 (quick) / 4 (thorough)", "steps per branch <= 3", "async: <= 3 branches, <= 2 steps, gates pending <= 1 (quick) / 2 (thorough)",
            "thread placement in {earliest, latest} per thread", "payloads u8"],
    outside=["more branches/steps", "interleavings inside thread bodies", "real tokio scheduling"],
    assumptions=["Kani/CBMC translation of the expansion is faithful", "thread and tokio models of DESIGN.md 2.2", "futures 0.3.26 as compiled",
                 "proc-macro2 1.0.106 behaves like 1.0.51 for this crate"],
)
