"""Profile programs: n branches, d_b steps each, every step one logged callback (plus optional block capture),
symbolic payload xor-ed in at every position.  Shared by C03, C04, C06, C07, C10-C13, C18, C19.

Value model: value of branch b after step s is  V(b,s) = p_b0 ^ ... ^ p_bs  (all p symbolic u8).
Carriers:  'raw'  - branch values are u8, steps are `~-> f`
           'opt'  - Option<u8> (always Some in non-try programs), steps are `~|> f`, `~=> f` or `~-> f`
           'res'  - Result<u8,u8>
In try programs the ok flag o_bs of every position is symbolic (or fixed true when `can_fail` is False).
"""
from .profiles import *

CAP0 = 100     # capture event ids: CAP0 + b*6 + s
INIT0 = 130    # initial-expression event ids
H_EV = 150     # handler event


def CAP(b, s):
    return CAP0 + b * 6 + s


def INIT(b):
    return INIT0 + b


class PP:
    def __init__(self, macro, profile, carrier="raw", can_fail=None, handler=None, lets=None, captures=None,
                 init_blocks=False, styles=None, snapshot=None, gates=None, extra_instant=None, tok=False):
        self.macro = macro
        self.is_async, self.is_try, self.is_spawn = KINDS[macro]
        self.profile = tuple(profile)
        self.n = len(profile)
        self.carrier = carrier
        self.can_fail = self.is_try if can_fail is None else can_fail
        self.handler = handler              # None | 'map' | 'and_then' | 'then'  (+ optional position)
        self.handler_pos = None             # index among branches where the handler is written (None = last)
        self.handler_fail = False           # and_then handler fails on a symbolic flag `hok` with payload `hp`
        self.handler_gate = False           # async then/and_then handler awaits a GateN { n: hn } first
        self.lets = lets or {}              # b -> 'let' | 'let mut'
        self.captures = captures or set()   # {(b, s)}: step callback operand written as a block capture
        self.init_blocks = init_blocks      # initial expressions written as logged blocks
        self.styles = styles or {}          # (b, s) -> 'and_then' | 'map' | 'then'
        self.snapshot = snapshot or {}      # (b, s) -> j : the capture of (b, s) snapshots name of branch j
        self.gates = gates                  # async: max pending count per gate
        self.gate_steps = None              # async: steps whose gates are symbolic (None = all)
        self.mutate_names = False           # captures re-assign `let mut` names (C12)
        self.extra_instant = extra_instant or set()   # {(b, s)}: a second, instant logged action in that step
        self.step_fn = "astep"              # async step helper: `astep` (async fn) or `sstep` (hand-written future, cheap for the solver)
        assert not (self.is_try and carrier == "raw")

    # ----- types / constructors --------------------------------------------------------------------
    @property
    def ty(self):
        return {"raw": "u8", "opt": "Option<u8>", "res": "Result<u8, u8>"}[self.carrier]

    def ok(self, b, s):
        """ok flag of position (b, s): symbolic unless the program / the step style cannot fail there"""
        if not self.can_fail or self.carrier == "raw" or (s > 0 and self.style(b, s) == "map"):
            return "true"
        return o(b, s)

    def mkv(self, b, s, v):
        """expression constructing the carrier value of (b, s) from payload expression v"""
        if self.carrier == "raw":
            return v
        f = "mk" if self.carrier == "res" else "mo"
        return "%s(%s, %s)" % (f, self.ok(b, s), v)

    def name(self, b):
        return "nm%d" % b

    def style(self, b, s):
        st = self.styles.get((b, s))
        if st:
            return st
        if self.carrier == "raw":
            return "then"
        return "and_then"

    # ----- program text ----------------------------------------------------------------------------
    def callback(self, b, s):
        """closure text of the step callback of (b, s) (sync kinds)"""
        st = self.style(b, s)
        e = "ev(%d); " % E(b, s)
        if st == "then":
            if self.carrier == "raw":
                return "move |v: u8| { %sv ^ %s }" % (e, p(b, s))
            return "move |r: %s| { %sr.and_then(|v| %s) }" % (self.ty, e, self.mkv(b, s, "v ^ " + p(b, s)))
        if st == "map":
            return "move |v: u8| { %sv ^ %s }" % (e, p(b, s))
        return "move |v: u8| { %s%s }" % (e, self.mkv(b, s, "v ^ " + p(b, s)))

    def op(self, b, s):
        return {"then": "~->", "map": "~|>", "and_then": "~=>"}[self.style(b, s)]

    def snapshot_code(self, b, s):
        j = self.snapshot.get((b, s))
        if j is None:
            return ""
        nm = self.name(j)
        mut = ""
        if self.lets.get(j) == "let mut" and self.mutate_names:
            # `let mut name`: the binding must really be mutable (re-assign the value it already holds)
            mut = "let keep = %s; %s = keep; " % (nm, nm) if self.carrier == "raw" else ("let keep = %s.take(); %s = keep; " % (nm, nm) if self.carrier == "opt" else "")
        if self.carrier == "raw":
            return "%seva(%d, %s); " % (mut, CAP(b, s), nm)
        if self.carrier == "opt":
            return "%seva(%d, match %s.as_ref() { Some(x) => *x, None => 0 }); " % (mut, CAP(b, s), nm)
        return "eva(%d, match %s.as_ref() { Ok(x) => *x, Err(x) => *x }); " % (CAP(b, s), nm)

    def branch(self, b):
        d = self.profile[b]
        if self.is_async:
            return self.async_branch(b)
        init = self.mkv(b, 0, p(b, 0))
        if self.init_blocks:
            init = "{ ev(%d); %s }" % (INIT(b), init)
        parts = []
        if b in self.lets:
            parts.append("%s %s =" % (self.lets[b], self.name(b)))
        parts.append(init)
        if (b, 0) in self.extra_instant:
            parts.append(self.instant(b, 0))
        for s in range(1, d):
            cb = self.callback(b, s)
            if (b, s) in self.captures:
                snap = self.snapshot_code(b, s)
                cb = "{ %s%s%s }" % ("ev(%d); " % CAP(b, s) if not snap else "", snap, cb)
            parts.append("%s %s" % (self.op(b, s), cb))
            if (b, s) in self.extra_instant:
                parts.append(self.instant(b, s))
        return " ".join(parts)

    def instant(self, b, s):
        """a second, instant, value-preserving logged action"""
        if self.carrier == "raw":
            return "-> move |v: u8| { ev(%d); v }" % E(b, s, 1)
        return "|> move |v: u8| { ev(%d); v }" % E(b, s, 1)

    def async_branch(self, b):
        """async kinds: every position is `astep(enter, exit, pending count, value)`.
        try + res:  `~=> move |v| astep(..)`             (TryFutureExt::and_then)
        otherwise:  `~|> move |v| astep(..) ^^>`         (FutureExt::map + flatten)"""
        d = self.profile[b]
        g = lambda s: self.gate(b, s)
        parts = []
        if b in self.lets:
            parts.append("%s %s =" % (self.lets[b], self.name(b)))
        parts.append("%s(%d, %d, %s, %s)" % (self.step_fn, E(b, 0, 0), E(b, 0, 1), g(0), self.mkv(b, 0, p(b, 0))))
        for s in range(1, d):
            if self.styles.get((b, s)) == "amap":
                # cheap form: synchronous callback under FutureExt::map (no pending point in this position)
                if self.carrier == "raw":
                    nv = "v ^ " + p(b, s)
                else:
                    nv = "v.and_then(|v| %s)" % self.mkv(b, s, "v ^ " + p(b, s))
                cb = "move |v: %s| { ev(%d); ev(%d); %s }" % (self.ty, E(b, s, 0), E(b, s, 1), nv)
                op, tail = "~|>", ""
            elif self.styles.get((b, s)) == "athen":
                # `->` in an async macro hands the FUTURE of the previous step's value to the function; it returns a future with a pending point
                assert self.carrier == "raw" and not self.is_try
                cb = "move |f| athen(%d, %d, %s, f, %s)" % (E(b, s, 0), E(b, s, 1), g(s), p(b, s))
                op, tail = "~->", ""
            elif self.is_try:
                assert self.carrier == "res"
                cb = "move |v: u8| %s(%d, %d, %s, %s)" % (self.step_fn, E(b, s, 0), E(b, s, 1), g(s), self.mkv(b, s, "v ^ " + p(b, s)))
                op, tail = "~=>", ""
            else:
                if self.carrier == "raw":
                    nv = "v ^ " + p(b, s)
                else:
                    nv = "v.and_then(|v| %s)" % self.mkv(b, s, "v ^ " + p(b, s))
                cb = "move |v: %s| %s(%d, %d, %s, %s)" % (self.ty, self.step_fn, E(b, s, 0), E(b, s, 1), g(s), nv)
                op, tail = "~|>", " ^^>"
            if (b, s) in self.captures:
                snap = self.snapshot_code(b, s)
                cb = "{ %s%s%s }" % ("ev(%d); " % CAP(b, s) if not snap else "", snap, cb)
            parts.append("%s %s%s" % (op, cb, tail))
        return " ".join(parts)

    def handler_text(self):
        if not self.handler:
            return None
        args = ", ".join("x%d: %s" % (b, "u8" if self.handler in ("map", "and_then") else self.ty) for b in range(self.n))
        rev = ", ".join("x%d" % b for b in reversed(range(self.n)))
        tup = rev if self.n == 1 else "(%s)" % rev
        if self.handler == "and_then":
            tup = ("Ok(%s)" if self.carrier == "res" else "Some(%s)") % tup
            if self.handler_fail:
                tup = "if hok { %s } else { %s }" % (tup, "Err(hp)" if self.carrier == "res" else "None")
        gate = "GateN { n: hn }.await; " if self.handler_gate else ""
        body = "{ %sev(%d); %s }" % (gate, H_EV, tup)
        if self.is_async and self.handler in ("and_then", "then"):
            body = "async move %s" % body
        return "%s => move |%s| %s" % (self.handler, args, body)

    def text(self, options=""):
        items = [self.branch(b) for b in range(self.n)]
        h = self.handler_text()
        if h:
            pos = self.n if self.handler_pos is None else self.handler_pos
            items.insert(pos, h)
        return "%s! {\n        %s%s\n    }" % (self.macro, options, ",\n        ".join(items))

    # ----- oracle pieces ---------------------------------------------------------------------------
    def gate(self, b, s):
        """pending-count expression of the gate at (b, s)"""
        if not self.is_async or not self.gates or (self.gate_steps is not None and s not in self.gate_steps) or self.styles.get((b, s)) == "amap":
            return "0"
        return n(b, s)

    def decls(self):
        lines = [decl(self.profile, flags=self.can_fail)]
        if self.is_async and self.gates:
            for b, d in enumerate(self.profile):
                for s in range(d):
                    if self.gate(b, s) != "0":
                        lines.append("let %s = upto(%d);" % (n(b, s), self.gates))
        return "\n    ".join(lines)

    def final_vals(self):
        return [val(b, d - 1) for b, d in enumerate(self.profile)]

    def positions(self):
        """(s, b) in evaluation-relevant order: steps ascending, active branches ascending"""
        return [(s, b) for s in range(max(self.profile)) for b in active(self.profile, s)]

    def all_ok(self):
        if not self.can_fail:
            return "true"
        return " && ".join(self.ok(b, s) for s, b in self.positions())

    def fail_step_expr(self):
        """rust expression: index of the earliest failing step, 255 if none"""
        if not self.can_fail:
            return "255u8"
        out = []
        for s in range(max(self.profile)):
            cond = " || ".join("!" + self.ok(b, s) for b in active(self.profile, s))
            out.append("if %s { %du8 }" % (cond, s))
        out.append("{ 255u8 }")
        return " else ".join(out)

    def wrap_ok(self, x):
        if self.carrier == "res":
            return "Ok(%s)" % x
        if self.carrier == "opt":
            return "Some(%s)" % x
        return x

    def expected_success(self):
        """expected macro value when every position succeeds (handler applied)"""
        vals = self.final_vals()
        if self.is_try:
            if self.handler in ("map", "and_then"):
                vals = list(reversed(vals))
            t = vals[0] if self.n == 1 else "(" + ", ".join(vals) + ")"
            return self.wrap_ok(t)
        wrapped = [self.wrap_ok(v) for v in vals]
        if self.handler == "then":
            wrapped = list(reversed(wrapped))
        return wrapped[0] if self.n == 1 else "(" + ", ".join(wrapped) + ")"

    def first_failure_spec(self):
        """closed form of C05 for sync/thread kinds"""
        out = []
        for s, b in self.positions():
            fail = "Err(%s)" % val(b, s) if self.carrier == "res" else "None"
            out.append("if !%s { %s }" % (self.ok(b, s), fail))
        out.append("{ %s }" % self.expected_success())
        return " else ".join(out)

    def own_final(self, b):
        """carrier value branch b ends with when its own positions may fail (non-try programs, no `map` style)"""
        d = self.profile[b]
        if self.carrier == "raw":
            return val(b, d - 1)
        out = []
        for s in range(d):
            fail = "Err(%s)" % val(b, s) if self.carrier == "res" else "None"
            if self.ok(b, s) != "true":
                out.append("if !%s { %s }" % (self.ok(b, s), fail))
        out.append("{ %s }" % self.wrap_ok(val(b, d - 1)))
        return "(" + " else ".join(out) + ")" if len(out) > 1 else self.wrap_ok(val(b, d - 1))

    def expected_nontry(self):
        """expected value of a non-try program whose positions may fail (raw values reach the result / `then`)"""
        vals = [self.own_final(b) for b in range(self.n)]
        if self.handler == "then":
            vals = list(reversed(vals))
        return vals[0] if self.n == 1 else "(" + ", ".join(vals) + ")"

    def max_polls(self):
        steps = [s for s in range(max(self.profile)) if any(self.gate(b, s) != "0" for b in active(self.profile, s))]
        return 1 + (self.gates or 0) * len(steps)
