"""Typed mini-DSL over the combinator operators.

A chain is a list of Step objects applied to an input value.  Every operator has a typing rule, a macro
rendering (tokens inside join!{..}) and an *independent* reference rendering: the plain-Rust method call the
documentation of join/src/lib.rs gives for it (DESIGN.md Appendix A).  The generator never looks at join_impl.
"""
import random

U8 = ("u8",)
BOOL = ("bool",)
USIZE = ("usize",)
UNIT = ("unit",)
TOK = ("tok",)        # move-only token (rt::Tok): no Clone, no Copy, Drop counted


def OPT(t):
    return ("opt", t)


def RES(t):
    return ("res", t)


def IT(t):
    return ("it", t)


def VEC(t):
    return ("vec", t)


def PAIR(a, b):
    return ("pair", a, b)


def ty(t):
    k = t[0]
    if k in ("u8", "bool", "usize"):
        return k
    if k == "unit":
        return "()"
    if k == "tok":
        return "Tok"
    if k == "opt":
        return "Option<%s>" % ty(t[1])
    if k == "res":
        return "Result<%s, u8>" % ty(t[1])
    if k == "vec":
        return "Vec<%s>" % ty(t[1])
    if k == "pair":
        return "(%s, %s)" % (ty(t[1]), ty(t[2]))
    raise ValueError("no type text for %r" % (t,))


def comparable(t):
    return t[0] != "it"


def has_iter(t):
    return t[0] == "it" or any(isinstance(x, tuple) and has_iter(x) for x in t[1:])


class Ctx:
    """allocates symbolic scalars and callback ids of one program"""

    def __init__(self, rnd, first_id=1, itlen=3):
        self.rnd = rnd
        self.itlen = itlen
        self.decls = []
        self.nk = 0
        self.next_id = first_id
        self.ids = []

    def k(self):
        v = "k%d" % self.nk
        self.nk += 1
        self.decls.append("let %s = u();" % v)
        return v

    def f(self):
        v = "f%d" % self.nk
        self.nk += 1
        self.decls.append("let %s = b();" % v)
        return v

    def cid(self):
        i = self.next_id
        self.next_id += 1
        self.ids.append(i)
        return i

    def value(self, t, itlen=None):
        """expression constructing a symbolic value of type t out of Copy scalars (can be evaluated twice)"""
        if itlen is None:
            itlen = self.itlen
        k = t[0]
        if k == "u8":
            return self.k()
        if k == "tok":
            return "Tok::new(%s)" % self.k()
        if k == "bool":
            return self.f()
        if k == "usize":
            return "(%s as usize)" % self.k()
        if k == "opt":
            return "(if %s { Some(%s) } else { None })" % (self.f(), self.value(t[1], itlen))
        if k == "res":
            return "(if %s { Ok(%s) } else { Err(%s) })" % (self.f(), self.value(t[1], itlen), self.k())
        if k == "pair":
            return "(%s, %s)" % (self.value(t[1], itlen), self.value(t[2], itlen))
        if k == "it":
            return "[%s].into_iter()" % ", ".join(self.value(t[1], itlen) for _ in range(itlen))
        if k == "vec":
            return "[%s].into_iter().collect::<Vec<%s>>()" % (", ".join(self.value(t[1], itlen) for _ in range(itlen)), ty(t[1]))
        raise ValueError(t)


class Step:
    def __init__(self, op, mac, ref, out, inner=None, explicit_close=True, ids=(), note=""):
        self.op = op
        self.mac = mac              # tokens of operator + operands (without `~`)
        self.ref = ref              # callable: base expression text -> expression text
        self.out = out
        self.inner = inner          # wrapper: inner chain (list of Step)
        self.explicit_close = explicit_close
        self.deferred = False
        self.ids = list(ids)
        self.note = note


# ----------------------------------------------------------------------------------------------------------
# closures
# ----------------------------------------------------------------------------------------------------------
def cl(ctx, params, body, log=None, wrap=None):
    """closure text; `log` = expression (u8) recorded with a fresh callback id"""
    i = ctx.cid()
    lg = "call(%d, %s); " % (i, log if log is not None else "0")
    return "move |%s| { %s%s }" % (params, lg, body), i


def to_u8(ctx, t, var="v"):
    """closure body t -> u8"""
    if t == U8:
        return "%s ^ %s" % (var, ctx.k())
    return "%s.obs() ^ %s" % (var, ctx.k())


def map_fn(ctx, t):
    """(closure text, out item type) for a map-like operand on item type t"""
    r = ctx.rnd.random()
    if t == TOK and r < 0.6:
        c, i = cl(ctx, "v: Tok", "v.map(|x| x ^ %s)" % ctx.k(), "v.obs()")
        return c, TOK, i
    if t == U8 or r < 0.5:
        c, i = cl(ctx, "v: %s" % ty(t), to_u8(ctx, t), "v.obs()")
        return c, U8, i
    if t[0] == "opt":
        c, i = cl(ctx, "v: %s" % ty(t), "v.is_some()", "v.obs()")
        return c, BOOL, i
    c, i = cl(ctx, "v: %s" % ty(t), "(v, %s)" % ctx.k(), "v.obs()")
    return c, PAIR(t, U8), i


def pred_fn(ctx, t):
    c, i = cl(ctx, "v: &%s" % ty(t), "v.obs() > %s" % ctx.k(), "v.obs()")
    return c, i


def opt_fn(ctx, t):
    """t -> Option<u8>"""
    c, i = cl(ctx, "v: %s" % ty(t), "mo(v.obs() > %s, v.obs() ^ 1)" % ctx.k(), "v.obs()")
    return c, i


def res_fn(ctx, t):
    c, i = cl(ctx, "v: %s" % ty(t), "mk(v.obs() > %s, v.obs() ^ 1)" % ctx.k(), "v.obs()")
    return c, i


# ----------------------------------------------------------------------------------------------------------
# operators: each returns a Step for input type t, or None when it does not type
# ----------------------------------------------------------------------------------------------------------
def op_map(ctx, t):
    if t[0] not in ("opt", "res", "it"):
        return None
    c, out, i = map_fn(ctx, t[1])
    return Step("|>", "|> " + c, lambda b: "%s.map(%s)" % (b, c), (t[0], out), ids=[i])


def op_and_then(ctx, t):
    if t[0] == "opt":
        c, i = opt_fn(ctx, t[1])
        return Step("=>", "=> " + c, lambda b: "%s.and_then(%s)" % (b, c), OPT(U8), ids=[i])
    if t[0] == "res":
        c, i = res_fn(ctx, t[1])
        return Step("=>", "=> " + c, lambda b: "%s.and_then(%s)" % (b, c), RES(U8), ids=[i])
    return None


def op_filter(ctx, t):
    if t[0] not in ("opt", "it"):
        return None
    c, i = pred_fn(ctx, t[1])
    return Step("?>", "?> " + c, lambda b: "%s.filter(%s)" % (b, c), t, ids=[i])


DOTS = {
    "opt": [("is_some()", lambda t: BOOL), ("is_none()", lambda t: BOOL), ("ok_or(K)", lambda t: RES(t[1])), ("iter().count()", lambda t: USIZE)],
    "optu8": [("unwrap_or(K)", lambda t: U8), ("xor(mo(F, K))", lambda t: t)],
    "res": [("ok()", lambda t: OPT(t[1])), ("is_ok()", lambda t: BOOL), ("is_err()", lambda t: BOOL)],
    "resu8": [("unwrap_or(K)", lambda t: U8)],
    "it": [("count()", lambda t: USIZE), ("last()", lambda t: OPT(t[1])), ("take(2)", lambda t: t), ("nth(1)", lambda t: OPT(t[1]))],
    "itu8": [("max()", lambda t: OPT(U8)), ("min()", lambda t: OPT(U8))],
    "vec": [("len()", lambda t: USIZE), ("into_iter()", lambda t: IT(t[1])), ("is_empty()", lambda t: BOOL)],
    "pair": [("0", lambda t: t[1]), ("1", lambda t: t[2])],
    "u8": [("wrapping_add(K)", lambda t: U8), ("count_ones()", lambda t: ("u32",)), ("checked_add(K)", lambda t: OPT(U8))],
}


def op_dot(ctx, t, tok=".."):
    cands = list(DOTS.get(t[0], []))
    if t[0] in ("opt", "res", "it") and t[1] == U8:
        cands += DOTS[t[0] + "u8"]
    cands = [c for c in cands if c[1](t) != ("u32",)]
    if not cands:
        return None
    m, outf = ctx.rnd.choice(cands)
    while "K" in m:
        m = m.replace("K", ctx.k(), 1)
    while "F" in m:
        m = m.replace("F", ctx.f(), 1)
    return Step(tok, "%s %s" % (tok, m), lambda b: "%s.%s" % (b, m), outf(t))


def op_dot2(ctx, t):
    return op_dot(ctx, t, ">.")


def op_then(ctx, t):
    if has_iter(t):
        return None
    r = ctx.rnd.random()
    if r < 0.4:
        c, i = cl(ctx, "v: %s" % ty(t), "mo(v.obs() > %s, v.obs())" % ctx.k(), "v.obs()")
        out = OPT(U8)
    elif r < 0.7:
        c, i = cl(ctx, "v: %s" % ty(t), "v", "v.obs()")
        out = t
    else:
        c, i = cl(ctx, "v: %s" % ty(t), "(v, %s)" % ctx.k(), "v.obs()")
        out = PAIR(t, U8)
    return Step("->", "-> " + c, lambda b: "(%s)(%s)" % (c, b), out, ids=[i])


def op_or(ctx, t):
    if t[0] not in ("opt", "res") or has_iter(t):
        return None
    i = ctx.cid()
    v = "lv(%d, %s)" % (i, ctx.value(t))     # a logged operand EXPRESSION: evaluated exactly once per evaluation of the operator
    return Step("<|", "<| " + v, lambda b: "%s.or(%s)" % (b, v), t, ids=[i])


def op_or_else(ctx, t):
    if has_iter(t):
        return None
    if t[0] == "opt":
        v = ctx.value(t)
        c, i = cl(ctx, "", v, "0")
        return Step("<=", "<= " + c, lambda b: "%s.or_else(%s)" % (b, c), t, ids=[i])
    if t[0] == "res":
        v = ctx.value(t)
        c, i = cl(ctx, "e: u8", "if e > %s { %s } else { Err(e ^ 3) }" % (ctx.k(), v), "e")
        return Step("<=", "<= " + c, lambda b: "%s.or_else(%s)" % (b, c), t, ids=[i])
    return None


def op_map_err(ctx, t):
    if t[0] != "res":
        return None
    c, i = cl(ctx, "e: u8", "e ^ %s" % ctx.k(), "e")
    return Step("!>", "!> " + c, lambda b: "%s.map_err(%s)" % (b, c), t, ids=[i])


def op_collect(ctx, t):
    if t[0] != "it" or has_iter(t[1]):
        return None
    tt = "Vec<%s>" % ty(t[1])
    if ctx.rnd.random() < 0.5:
        tt = "Vec<_>"
    return Step("=>[]", "=>[] " + tt, lambda b: "%s.collect::<%s>()" % (b, tt), VEC(t[1]))


def op_collect_untyped(ctx, t):
    """`=>[]` without a type: the type comes from the typed closure that follows"""
    if t[0] != "it" or has_iter(t[1]):
        return None
    vt = "Vec<%s>" % ty(t[1])
    c, i = cl(ctx, "v: %s" % vt, "v", "v.obs()")
    return Step("=>[]", "=>[] -> " + c, lambda b: "(%s)(%s.collect())" % (c, b), VEC(t[1]), ids=[i], note="collect() + typed call")


def op_chain(ctx, t):
    if t[0] != "it":
        return None
    i = ctx.cid()
    v = "lv(%d, %s)" % (i, ctx.value(t, itlen=2))
    return Step(">@>", ">@> " + v, lambda b: "%s.chain(%s)" % (b, v), t, ids=[i])


def op_find_map(ctx, t):
    if t[0] != "it":
        return None
    c, i = opt_fn(ctx, t[1])
    return Step("?|>@", "?|>@ " + c, lambda b: "%s.find_map(%s)" % (b, c), OPT(U8), ids=[i])


def op_filter_map(ctx, t):
    if t[0] != "it":
        return None
    c, i = opt_fn(ctx, t[1])
    return Step("?|>", "?|> " + c, lambda b: "%s.filter_map(%s)" % (b, c), IT(U8), ids=[i])


def op_enumerate(ctx, t):
    if t[0] != "it":
        return None
    return Step("|n>", "|n>", lambda b: "%s.enumerate()" % b, IT(PAIR(USIZE, t[1])))


def op_partition(ctx, t):
    if t[0] != "it" or has_iter(t[1]):
        return None
    c, i = pred_fn(ctx, t[1])
    pt = "(Vec<%s>, Vec<%s>)" % (ty(t[1]), ty(t[1]))
    c2, i2 = cl(ctx, "v: %s" % pt, "v", "v.0.obs() ^ v.1.obs()")
    return Step("?&!>", "?&!> %s -> %s" % (c, c2), lambda b: "(%s)(%s.partition(%s))" % (c2, b, c), PAIR(VEC(t[1]), VEC(t[1])), ids=[i, i2], note="partition + typed call")


def op_flatten(ctx, t):
    if t[0] == "it" and t[1][0] in ("opt", "it"):
        return Step("^^>", "^^>", lambda b: "%s.flatten()" % b, IT(t[1][1]))
    if t[0] == "opt" and t[1][0] == "opt":
        return Step("^^>", "^^>", lambda b: "%s.flatten()" % b, t[1])
    return None


def op_fold(ctx, t):
    if t[0] != "it":
        return None
    i0 = ctx.cid()
    init = "lv(%d, %s)" % (i0, ctx.k())
    c, i = cl(ctx, "acc: u8, v: %s" % ty(t[1]), "acc.wrapping_mul(3) ^ v.obs().wrapping_add(%s)" % ctx.k(), "acc ^ v.obs()")
    return Step("^@", "^@ %s, %s" % (init, c), lambda b: "%s.fold(%s, %s)" % (b, init, c), U8, ids=[i0, i])


def op_try_fold(ctx, t):
    if t[0] != "it":
        return None
    i0 = ctx.cid()
    init = "lv(%d, %s)" % (i0, ctx.k())
    if ctx.rnd.random() < 0.5:
        c, i = cl(ctx, "acc: u8, v: %s" % ty(t[1]), "mo(v.obs() != %s, acc ^ v.obs())" % ctx.k(), "acc ^ v.obs()")
        out = OPT(U8)
    else:
        c, i = cl(ctx, "acc: u8, v: %s" % ty(t[1]), "mk(v.obs() != %s, acc ^ v.obs())" % ctx.k(), "acc ^ v.obs()")
        out = RES(U8)
    return Step("?^@", "?^@ %s, %s" % (init, c), lambda b: "%s.try_fold(%s, %s)" % (b, init, c), out, ids=[i0, i])


def op_find(ctx, t):
    if t[0] != "it":
        return None
    c, i = pred_fn(ctx, t[1])
    return Step("?@", "?@ " + c, lambda b: "%s.find(%s)" % (b, c), OPT(t[1]), ids=[i])


def op_zip(ctx, t):
    if t[0] != "it":
        return None
    i = ctx.cid()
    v = "lv(%d, %s)" % (i, ctx.value(IT(U8), itlen=2))
    return Step(">^>", ">^> " + v, lambda b: "%s.zip(%s)" % (b, v), IT(PAIR(t[1], U8)), ids=[i])


def op_unzip(ctx, t):
    if t[0] != "it" or t[1][0] != "pair" or has_iter(t[1]):
        return None
    a, bb = t[1][1], t[1][2]
    if ctx.rnd.random() < 0.5:
        spec = "%s, %s, Vec<%s>, Vec<%s>" % (ty(a), ty(bb), ty(a), ty(bb))
        if ctx.rnd.random() < 0.5:
            spec = "_, _, Vec<_>, Vec<_>"
        return Step("<->", "<-> " + spec, lambda b: "%s.unzip::<%s>()" % (b, spec), PAIR(VEC(a), VEC(bb)))
    pt = "(Vec<%s>, Vec<%s>)" % (ty(a), ty(bb))
    c, i = cl(ctx, "v: %s" % pt, "v", "v.0.obs() ^ v.1.obs()")
    return Step("<->", "<-> -> " + c, lambda b: "(%s)(%s.unzip())" % (c, b), PAIR(VEC(a), VEC(bb)), ids=[i], note="unzip() + typed call")


def op_inspect(ctx, t):
    if has_iter(t):
        return None
    # (the callback captures a symbolic scalar: a capturing closure is not zero-sized, so boxing it would allocate - C19)
    c, i = cl(ctx, "v: &%s" % ty(t), "", "v.obs() ^ %s" % ctx.k())
    return Step("??", "?? " + c, lambda b: "{ let x = %s; (%s)(&x); x }" % (b, c), t, ids=[i])


OPS = {
    "|>": op_map, "=>": op_and_then, "?>": op_filter, "..": op_dot, ">.": op_dot2, "->": op_then, "<|": op_or, "<=": op_or_else,
    "!>": op_map_err, "=>[]": op_collect, "=>[]u": op_collect_untyped, ">@>": op_chain, "?|>@": op_find_map, "?|>": op_filter_map,
    "|n>": op_enumerate, "?&!>": op_partition, "^^>": op_flatten, "^@": op_fold, "?^@": op_try_fold, "?@": op_find, ">^>": op_zip,
    "<->": op_unzip, "??": op_inspect,
}
OP_NAMES = list(OPS)

INPUT_TYPES = [OPT(U8), RES(U8), IT(U8), OPT(OPT(U8)), RES(OPT(U8)), IT(OPT(U8)), IT(PAIR(U8, U8)), U8, PAIR(U8, U8), OPT(PAIR(U8, U8)), VEC(U8)]


# ----------------------------------------------------------------------------------------------------------
# wrappers (C02):  X >>> inner... <<<   ==   .x(|w| w inner...)
# ----------------------------------------------------------------------------------------------------------
def wrapper_specs(t):
    """[(operator token, method, type of the closure argument, required result kind, output type builder)]"""
    out = []
    if t[0] in ("opt", "res"):
        out.append(("|>", "map", t[1], "any", lambda r: (t[0], r)))
        out.append(("=>", "and_then", t[1], t[0], lambda r: r))
    if t[0] == "it":
        out.append(("|>", "map", t[1], "any", lambda r: IT(r)))
        out.append(("?|>", "filter_map", t[1], "opt", lambda r: IT(r[1])))
        out.append(("?|>@", "find_map", t[1], "opt", lambda r: r))
        out.append(("?@", "find", ("ref", t[1]), "bool", lambda r: OPT(t[1])))
        out.append(("?&!>", "partition", ("ref", t[1]), "bool", None))
    if t[0] in ("opt", "it"):
        out.append(("?>", "filter", ("ref", t[1]), "bool", lambda r: t))
    if t[0] == "res":
        out.append(("<=", "or_else", U8, "res_same", lambda r: t))
        out.append(("!>", "map_err", U8, "u8", lambda r: t))
    if not has_iter(t):
        out.append(("??", "inspect", ("ref", t), "unit", lambda r: t))
    return out


def render_mac(chain):
    parts = []
    for st in chain:
        pre = "~" if st.deferred else ""
        if st.inner is not None:
            parts.append("%s%s >>> %s%s" % (pre, st.op, render_mac(st.inner), " <<<" if st.explicit_close else ""))
        else:
            parts.append(pre + st.mac)
    return " ".join(p for p in parts if p)


def render_ref(chain, base):
    for st in chain:
        base = st.ref(base)
    return base


def all_ids(chain):
    out = []
    for st in chain:
        out.extend(st.ids)
        if st.inner is not None:
            out.extend(all_ids(st.inner))
    return out


def random_chain(ctx, t, length, allowed=None, avoid_iter_end=False):
    """type-directed random chain of `length` operators starting from type t"""
    chain = []
    cur = t
    for _ in range(length):
        names = list(allowed or OP_NAMES)
        ctx.rnd.shuffle(names)
        for nm in names:
            st = OPS[nm](ctx, cur)
            if st is not None:
                chain.append(st)
                cur = st.out
                break
        else:
            break
    return chain, cur


def finish(t):
    """comparison of the two final values: callable (macro expr, reference expr) -> bool expression text"""
    if t[0] == "it":
        if has_iter(t[1]):
            return lambda m, r: "%s.count() == %s.count()" % (m, r)
        return lambda m, r: "Iterator::eq(%s, %s)" % (m, r)
    return lambda m, r: "%s == %s" % (m, r)
