"""C18 - a panic in any user expression reaches the caller (bounded model checking with fault injection, partial).

Kani is panic=abort, so propagation of a panic through a non-spawning expansion is language semantics it cannot
contradict.  What is decided are the two mechanisms the property is anchored in:
  * threads: with the thread model's fault bit symbolic over every spawned thread of every step ("the body panicked"),
    the harness must fail with exactly the expansion's `join().unwrap()` panic, no item of a later step may run after a
    failed join, and the macro must not complete when a fault was injected;
  * tasks: the same with `Err(JoinError)` from the tokio model and the `tokio JoinHandle failed` panic.
The driver compares the set of failed checks with the expected one instead of expecting success.
"""
from .driver import Program, pack
from .pp import *

UNWRAP_RE = r"@ core::result::unwrap_failed"      # Kani reports the panic of `join().unwrap()` inside unwrap_failed (message formatted at run time)
TOKIO_RE = r"tokio JoinHandle failed"


def make(pid, macro, profile, idx, seed, faults=True, fail=False):
    """fail: (sync try thread kinds) the ok flag of every position is symbolic too - a branch that FAILS next to a thread that PANICS: every thread
    of a step is joined (and its panic re-raised) before the step's failure check, so the panic still reaches the caller"""
    is_async, is_try, is_spawn = KINDS[macro]
    carrier = "res" if is_try else ["raw", "opt"][idx % 2]
    styles = {}
    for b, d in enumerate(profile):
        for s in range(1, d):
            styles[(b, s)] = "amap" if is_async else ("then" if carrier == "raw" else ["and_then", "then"][(idx + b + s) % 2])
    captures = {(b, s) for b, d in enumerate(profile) for s in range(1, d) if (b + s + idx) % 2 == 0}
    pp = PP(macro, profile, carrier=carrier, can_fail=bool(fail), styles=styles, gates=1 if is_async else None, captures=captures)
    pp.gate_steps = {0}
    seen = "k_fault_seen()" if is_async else "t_fault_seen()"
    injected = "k_faulted()" if is_async else "t_faulted()"
    msg = lambda t: "\"C18[%s]: %s\"" % (pid, t)
    # monitors inside later-step callbacks: nothing of a later step runs after a failed join
    text = pp.text()
    mon0 = "vassert!(%s == 0, %s); " % (seen, msg("an expression of a later step ran after a panic was observed by the caller"))
    fmask = "k_fault_mask()" if is_async else "t_fault_mask()"
    for b, d in enumerate(profile):
        for s in range(1, d):
            # threads / tasks are spawned only in steps with more than one active branch, in step order: ids 1..=n_before belong to earlier steps.
            # A faulted thread may have panicked as soon as it was spawned, and every thread of a step is joined (and unwrapped) before the next step starts.
            n_before = sum(len(active(profile, t)) for t in range(s) if len(active(profile, t)) > 1)
            mon = mon0 + "vassert!(%s & %du32 == 0, %s); " % (fmask, ((1 << n_before) - 1) << 1, msg("an expression of a later step ran although a thread/task of an earlier step had already panicked (its join was skipped or deferred)"))
            e = E(b, s, 0) if is_async else E(b, s)
            text = text.replace("ev(%d); " % e, "ev(%d); %s" % (e, mon), 1)
            if (b, s) in captures:
                # block captures of a later step are evaluated on the caller before the step starts: not after a failed join either
                text = text.replace("ev(%d); " % CAP(b, s), "ev(%d); %s" % (CAP(b, s), mon), 1)
    L = ["names_off();", "k_enable_faults();" if is_async else "t_enable_faults();"] if faults else ["names_off();"]
    L.append(pp.decls())
    if is_async:
        L.append("let mut fut = %s;" % text)
        # every handle of a step is polled in the poll that spawns its task (and in every later one): once a spawned task has panicked the very
        # next poll of the macro's future panics - it never answers Pending (the caller would be left waiting for an unrelated sibling)
        L.append("let mut r = None; let mut polls = 0usize;")
        L.append("while polls < %d { polls += 1; clear_woken(); match poll_once(&mut fut) { Poll::Ready(v) => { r = Some(v); break; } Poll::Pending => { vassert!(%s == 0, %s); } } }"
                 % (pp.max_polls(), injected, msg("a poll of the macro's future answered Pending although a spawned task had already panicked: the panic is held back behind a pending sibling")))
        L.append("vassert!(%s == 0, %s);" % (injected, msg("the future completed (or is still pending) although a task failed: the failure did not reach the caller")))
        L.append("vassert!(r == Some(%s), %s);" % (pp.expected_success(), msg("without a fault the macro completes with its value")))
    else:
        L.append("let r = %s;" % text)
        L.append("vassert!(%s == 0, %s);" % (injected, msg("the macro completed although a thread panicked: the panic did not reach the caller")))
        L.append("vassert!(r == %s, %s);" % (pp.first_failure_spec() if fail else pp.expected_success(), msg("without a fault the macro completes with its value")))
        L.append("vassert!(t_spawned() == t_joined(), %s);" % msg("every thread joined on the fault-free path"))
        if fail:
            L.append("vcover!(!(%s), \"a branch fails on the fault-free path\");" % pp.all_ok())
    L.append("vcover!(true, \"fault-free path reaches the end\");")
    multi = any(len(active(profile, s)) > 1 for s in range(max(profile)))
    expect = None
    if faults and multi:
        expect = [TOKIO_RE if is_async else UNWRAP_RE]
    desc = dict(macro=macro, profile=list(profile), carrier=carrier, fault_bits="one per spawned %s" % ("task" if is_async else "thread") if faults else "off",
                expected_failed_checks=expect or [])
    return Program(pid, text, "    " + "\n    ".join(l for l in L if l), desc=desc, group=macro + ("" if faults else "/no-fault") + ("/failing-branches" if fail else ""), role=dict(kind=macro), expect_fail=expect,
                   solo=True, unwind=64 if not is_async else 12, weight=3)


def programs(tier, seed):
    ps = []
    i = 0
    tprofs = [(1, 1), (2, 1), (1, 2), (2, 2), (1, 1, 1), (2, 1, 2)] if tier == "quick" else [pr for pr in profiles(3, 3) if len(pr) >= 2 and sum(pr) <= 7]
    for macro in ("join_spawn", "try_join_spawn", "spawn", "try_spawn"):
        for prof in tprofs:
            i += 1
            if macro in ("spawn", "try_spawn") and prof not in ((1, 1), (2, 2)):
                continue
            ps.append(make("p%04d" % i, macro, prof, i, seed))
    # a failing branch next to a panicking thread (ok flags symbolic as well)
    for macro, prof in (("try_join_spawn", (1, 1)), ("try_join_spawn", (2, 1)), ("try_join_spawn", (1, 2)), ("try_join_spawn", (2, 2)), ("try_join_spawn", (1, 1, 1)), ("try_spawn", (1, 1)), ("try_spawn", (2, 2))):
        i += 1
        if tier == "quick" and prof in ((2, 1), (1, 2)) and (i + seed) % 2:
            continue
        assert KINDS[macro][1] and not KINDS[macro][0]
        ps.append(make("p%04d" % i, macro, prof, i, seed, fail=True))
    # single-branch programs spawn nothing: faults enabled must change nothing (expected: success)
    for macro in ("join_spawn", "try_join_spawn"):
        i += 1
        ps.append(make("p%04d" % i, macro, (2,), i, seed))
    aprofs = [("join_async_spawn", (1, 1)), ("try_join_async_spawn", (1, 1)), ("join_async_spawn", (2, 1))]
    if tier == "thorough":
        aprofs += [("async_spawn", (1, 1)), ("try_async_spawn", (1, 1)), ("join_async_spawn", (1, 1, 1)), ("try_join_async_spawn", (1, 2)), ("join_async_spawn", (2, 2))]
    for macro, prof in aprofs:
        i += 1
        ps.append(make("p%04d" % i, macro, prof, i, seed))
    return ps


def generate(tier, seed):
    return pack("c18", programs(tier, seed), 1)


META = dict(
    level="fault_enumeration",
    rule="one program per (spawning macro kind, depth profile); the fault bit of every spawned thread / task is SYMBOLIC (the solver covers every subset of faulted threads together with every "
         "early/late placement and gate count), so one query covers all single and multiple fault positions at whole-body granularity. A query is non-trivial when the expected panic check of the "
         "expansion failed (fault paths reachable), no other check failed, and the fault-free witness was satisfied; distinct = distinct invocation texts",
    functions_encoded=["expansions of join_spawn!, try_join_spawn!, spawn!, try_spawn! (`join().unwrap()` on every handle) and of the async spawn kinds (__spawn_tokio: JoinError -> panic)",
                       "mstd::thread model with fault bits", "tokio model with fault bits"],
    bounds=["branches <= 3, steps <= 2 (quick) / 3", "faults at whole-body granularity (a faulted thread / task runs nothing and its join reports failure)", "async: gates pending <= 1 in step 0"],
    outside=["panics in the middle of a body, unwinding through non-spawning expansions (language semantics; Kani is panic=abort)", "real runtimes", "panics inside handlers / captures on the caller thread"],
    assumptions=["thread and tokio models of DESIGN.md 2.2", "format! model returns an empty string"],
    clauses_not_decided=["propagation of a panic raised on the calling thread (sync macros, single-branch steps, captures, handlers): language semantics under panic=abort, nothing to decide"],
)
