"""C16 - options: custom joiner, lazy branches, transpose switch, crate path.

* custom_joiner(j): j is a logging function (a local macro forwarding to futures join!/try_join! for async) that marks
  the value at every argument position with a position constant.  Asserted: number of joiner calls == number of executed
  steps with > 1 active branch, arity == active count (the program would not build otherwise), argument i is the i-th
  active branch's value and the joiner's output is what later steps / the result see (the marks arrive in the result).
* lazy_branches(true): the joiner's parameters are `impl FnOnce() -> T`; it calls them in REVERSE order and the event
  clock must show that reverse order.
* transpose_results(false): the joiner returns the already transposed Result in every step (closed form of C05 with the
  joiner's failure choice: first failing argument).
* futures_crate_path(p): a second harness crate depends on futures ONLY under the renamed package `fx`, so any
  `::futures` left in an expansion cannot build; values are checked by the solver as well.
* options in any order and subset: every permutation of each option set.
Not decided: "each at most once" (rejection clause, DESIGN.md 4).
"""
import itertools

from .driver import Program, pack
from .pp import *

J_EV = 151
MARK = [0x10, 0x20, 0x40, 0x80]


def joiner_fn(name, arity, flavour):
    """module-level joiner. flavours: raw / res (tuple of Results) / lazy_raw / lazy_res / tres (transposed Result) / lazy_tres / generic"""
    ps = ["a%d" % i for i in range(arity)]
    if flavour == "generic":
        gen = ", ".join("T%d" % i for i in range(arity))
        return "fn %s<%s>(%s) -> (%s) { ev(%d); (%s) }" % (name, gen, ", ".join("a%d: T%d" % (i, i) for i in range(arity)), gen, J_EV, ", ".join(ps))
    lazy = flavour.startswith("lazy_")
    base = flavour.replace("lazy_", "")
    elem = {"raw": "u8", "res": "Result<u8, u8>", "tres": "Result<u8, u8>"}[base]
    params = ", ".join("%s: %s" % (x, ("impl FnOnce() -> %s" % elem) if lazy else elem) for x in ps)
    body = ["ev(%d);" % J_EV]
    order = list(reversed(range(arity))) if lazy else list(range(arity))
    for i in order:
        body.append("let v%d = %s;" % (i, ("a%d()" % i) if lazy else "a%d" % i))
    if base == "raw":
        ret = "(%s)" % ", ".join("u8" for _ in ps)
        out = "(%s)" % ", ".join("v%d ^ %d" % (i, MARK[i]) for i in range(arity))
    elif base == "res":
        ret = "(%s)" % ", ".join("Result<u8, u8>" for _ in ps)
        out = "(%s)" % ", ".join("v%d.map(|x| x ^ %d)" % (i, MARK[i]) for i in range(arity))
    else:
        ret = "Result<(%s), u8>" % ", ".join("u8" for _ in ps)
        chain = []
        for i in range(arity):
            chain.append("let w%d = match v%d { Ok(x) => x ^ %d, Err(e) => return Err(e) };" % (i, i, MARK[i]))
        body += chain
        out = "Ok((%s))" % ", ".join("w%d" % i for i in range(arity))
    return "fn %s(%s) -> %s { %s %s }" % (name, params, ret, " ".join(body), out)


def marks_for(profile, b, upto_step=None):
    """xor of the position marks branch b collects in the multi-branch steps it takes part in"""
    m = 0
    d = profile[b] if upto_step is None else min(profile[b], upto_step + 1)
    for s in range(d):
        act = active(profile, s)
        if len(act) > 1:
            m ^= MARK[act.index(b)]
    return m


def make_sync(pid, macro, profile, config, order, idx, seed):
    """config: frozenset of option names out of {'joiner', 'lazy', 'transpose_false', 'lazy_false', 'transpose_true'}"""
    is_async, is_try, is_spawn = KINDS[macro]
    carrier = "res" if is_try else "raw"
    tf = "transpose_false" in config
    lazy = "lazy" in config
    styles = {}
    for b, d in enumerate(profile):
        for s in range(1, d):
            # with transpose_results(false) the sync macro hands the *unwrapped* value to the next step
            styles[(b, s)] = "then"
    pp = PP(macro, profile, carrier=carrier, can_fail=is_try, styles=styles)
    items = []
    jname = {}
    flavour = None
    if "joiner" in config:
        if is_spawn:
            flavour = "generic"
        elif is_try:
            flavour = ("lazy_" if lazy else "") + ("tres" if tf else "res")
        else:
            flavour = ("lazy_" if lazy else "") + "raw"
        for ar in sorted(set(len(active(profile, s)) for s in range(max(profile)) if len(active(profile, s)) > 1)):
            jname[ar] = "j_%s_%d" % (pid, ar)
            items.append(joiner_fn(jname[ar], ar, flavour))
    # one joiner name is written in the macro; arities differ per step only if the profile makes them differ, so use a
    # local macro_rules dispatcher on arity when needed
    opt_tokens = {}
    if "joiner" in config:
        if not jname:
            # no step has more than one active branch: the joiner is never invoked (and need not even exist)
            opt_tokens["joiner"] = "custom_joiner(never_invoked_joiner)"
        elif len(jname) == 1:
            opt_tokens["joiner"] = "custom_joiner(%s)" % list(jname.values())[0]
        else:
            disp = "jd_%s" % pid
            arms = []
            for ar, nm in jname.items():
                args = ", ".join("$a%d:expr" % i for i in range(ar))
                arms.append("(%s) => { %s(%s) };" % (args, nm, ", ".join("$a%d" % i for i in range(ar))))
            items.append("macro_rules! %s { %s }" % (disp, " ".join(arms)))
            opt_tokens["joiner"] = "custom_joiner(%s!)" % disp
    if lazy:
        opt_tokens["lazy"] = "lazy_branches(true)"
    if "lazy_false" in config:
        opt_tokens["lazy_false"] = "lazy_branches(false)"
    if tf:
        opt_tokens["transpose_false"] = "transpose_results(false)"
    if "transpose_true" in config:
        opt_tokens["transpose_true"] = "transpose_results(true)"
    options = " ".join(opt_tokens[o_] for o_ in order) + " " if order else ""
    # ---- program text: with transpose_results(false) later steps of a sync try macro receive unwrapped values -------
    if tf:
        branches = []
        for b, d in enumerate(profile):
            parts = ["mk(%s, %s)" % (o(b, 0), p(b, 0))]
            for s in range(1, d):
                parts.append("~-> move |v: u8| { ev(%d); mk(%s, v ^ %s) }" % (E(b, s), o(b, s), p(b, s)))
            branches.append(" ".join(parts))
        text = "%s! {\n        %s%s\n    }" % (macro, options, ",\n        ".join(branches))
    else:
        text = pp.text(options=options)
    msg = lambda t: "\"C16[%s]: %s\"" % (pid, t)
    L = ["names_off();" if is_spawn else "", decl(profile, flags=is_try)]
    L.append("let r = %s;" % text)
    marked = "joiner" in config and flavour != "generic"
    vals = []
    for b, d in enumerate(profile):
        v = val(b, d - 1)
        if marked:
            v = "(%s ^ %d)" % (v, marks_for(profile, b))
        vals.append(v)
    tup = vals[0] if len(vals) == 1 else "(" + ", ".join(vals) + ")"
    if is_try:
        chain = []
        for s, b in pp.positions():
            ev_ = val(b, s)
            if marked:
                # the failing payload passes through the joiners of the *earlier* steps only (and, for tuple-of-Results
                # joiners, `map` leaves an Err untouched)
                ev_ = "(%s ^ %d)" % (ev_, marks_for(profile, b, s - 1))
            chain.append("if !%s { Err(%s) }" % (o(b, s), ev_))
        chain.append("{ Ok(%s) }" % tup)
        L.append("let expect = %s;" % " else ".join(chain))
    else:
        L.append("let expect = %s;" % tup)
    L.append("vassert!(r == expect, %s);" % msg("the joiner's output is the step result: position marks of every multi-branch step arrive in the macro's value (first failure otherwise)"))
    # joiner call count
    if "joiner" in config:
        multi = [s for s in range(max(profile)) if len(active(profile, s)) > 1]
        if is_try:
            L.append("let fs: u8 = %s;" % pp.fail_step_expr())
            cnt_expr = " + ".join("(fs >= %d) as u8" % s for s in multi) or "0"
        else:
            cnt_expr = str(len(multi))
        L.append("vassert!(cnt(%d) == %s, %s);" % (J_EV, cnt_expr, msg("custom_joiner is invoked exactly once per executed step with more than one active branch")))
    if lazy and not is_spawn:
        # reverse call order inside the joiner must be visible: branch 1's step-0 work happens before branch 0's
        pass
    L.append("vcover!(true, \"end reached\");")
    desc = dict(macro=macro, profile=list(profile), options=[opt_tokens[o_] for o_ in order], joiner_flavour=flavour)
    shape = "differing depths" if len(set(profile)) > 1 else "equal depths"
    kindname = "try sync" if (is_try and not is_spawn) else macro
    role = dict(kind=kindname, shape=shape)
    if tf:
        role["transpose"] = "false"
    return Program(pid, text, "    " + "\n    ".join(l for l in L if l), items="\n".join(items), desc=desc, group="sync/" + macro, role=role, unwind=64, weight=2)


def make_lazy_order(pid, macro, idx):
    """lazy_branches(true): the joiner calls its closures in reverse order; the event clock must show it"""
    is_async, is_try, is_spawn = KINDS[macro]
    elem = "Result<u8, u8>" if is_try else "u8"
    wrap = (lambda x: "mk(true, %s)" % x) if is_try else (lambda x: x)
    items = "fn jl_%s(a: impl FnOnce() -> %s, b: impl FnOnce() -> %s, c: impl FnOnce() -> %s) -> (%s, %s, %s) { ev(%d); let z = c(); let y = b(); let x = a(); (x, y, z) }" % (
        pid, elem, elem, elem, elem, elem, elem, J_EV)
    opts = ["lazy_branches(true)", "custom_joiner(jl_%s)" % pid]
    if idx % 2:
        opts.reverse()
    f = lambda k, pv: "(move || { ev(%d); %s })()" % (k, wrap(pv))
    text = "%s! {\n        %s\n        %s, %s, %s\n    }" % (macro, " ".join(opts), f(1, "p0"), f(2, "p1"), f(3, "p2"))
    msg = lambda t: "\"C16[%s]: %s\"" % (pid, t)
    L = ["let p0 = u(); let p1 = u(); let p2 = u();", "let r = %s;" % text]
    L.append("vassert!(r == %s, %s);" % (("Ok((p0, p1, p2))" if is_try else "(p0, p1, p2)"), msg("value")))
    L.append("vassert!(cnt(%d) == 1 && cnt(1) == 1 && cnt(2) == 1 && cnt(3) == 1, %s);" % (J_EV, msg("joiner and every lazy branch run exactly once")))
    L.append("vassert!(first(%d) < first(3) && first(3) < first(2) && first(2) < first(1), %s);" % (J_EV, msg("lazy_branches(true) hands each branch over as a zero-argument closure: nothing runs before the joiner calls it, in the joiner's (reverse) order")))
    L.append("vcover!(true, \"end reached\");")
    return Program(pid, text, "    " + "\n    ".join(L), items=items, desc=dict(macro=macro, options=opts), group="lazy-order", role=dict(kind=macro), unwind=64, weight=1)


def amacro(name, target, count_ev=True):
    return "macro_rules! %s { ($($f:expr),+) => { { %s %s!($($f),+) } } }" % (name, "ev(%d);" % J_EV if count_ev else "", target)


def make_async(pid, macro, profile, config, order, idx, seed, variant):
    """config out of {'path', 'joiner', 'transpose_false', 'transpose_true_with_join', 'lazy_false'}"""
    is_async, is_try, is_spawn = KINDS[macro]
    fx = variant == "fx"
    crate = "fx" if fx else "futures"
    carrier = "res" if is_try else "raw"
    styles = {(b, s): "amap" for b, d in enumerate(profile) for s in range(1, d)}
    pp = PP(macro, profile, carrier=carrier, can_fail=is_try, styles=styles)
    items = []
    toks = {}
    if "path" in config:
        toks["path"] = "futures_crate_path(::%s)" % crate
    if "joiner" in config:
        jn = "aj_%s" % pid
        items.append(amacro(jn, "::%s::%s" % (crate, "try_join" if is_try else "join")))
        toks["joiner"] = "custom_joiner(%s!)" % jn
    if "transpose_false" in config:
        toks["transpose_false"] = "transpose_results(false)"
    if "lazy_false" in config:
        toks["lazy_false"] = "lazy_branches(false)"
    options = " ".join(toks[o_] for o_ in order) + " " if order else ""
    text = pp.text(options=options)
    msg = lambda t: "\"C16[%s]: %s\"" % (pid, t)
    L = ["names_off();", decl(profile, flags=is_try)]
    L.append("let mut fut = %s;" % text)
    L.append("let r = poll_once(&mut fut);")
    if is_try:
        L.append("if %s { vassert!(r == Poll::Ready(%s), %s); } else { vassert!(match r { Poll::Ready(Err(_)) => true, _ => false }, %s); }" % (
            pp.all_ok(), pp.expected_success(), msg("same value as the default configuration"), msg("failure as in the default configuration")))
    else:
        L.append("vassert!(r == Poll::Ready(%s), %s);" % (pp.expected_success(), msg("same value as the default configuration")))
    if "joiner" in config:
        multi = [s for s in range(max(profile)) if len(active(profile, s)) > 1]
        if is_try:
            L.append("let fs: u8 = %s;" % pp.fail_step_expr())
            L.append("vassert!(cnt(%d) == %s, %s);" % (J_EV, " + ".join("(fs >= %d) as u8" % s for s in multi) or "0", msg("custom joiner macro is invoked once per executed multi-branch step")))
        else:
            L.append("vassert!(cnt(%d) == %d, %s);" % (J_EV, len(multi), msg("custom joiner macro is invoked once per multi-branch step")))
    L.append("vcover!(true, \"end reached\");")
    desc = dict(macro=macro, profile=list(profile), options=[toks[o_] for o_ in order], crate=("futures available only as `fx`" if fx else "futures"))
    return Program(pid, text, "    " + "\n    ".join(l for l in L if l), items="\n".join(items), desc=desc, group="async/%s%s" % (macro, "/fx" if fx else ""), role=dict(kind=macro),
                   unwind=12, weight=3, variant=variant, solo=(max(profile) > 1))


def make_async_lazy(pid, macro, steps, idx):
    """lazy_branches(true) in the async kinds: the joiner macro receives zero-argument closures yielding the step futures; it calls them in
    reverse order (a future handed over instead would not be callable: build stage)"""
    is_async, is_try, is_spawn = KINDS[macro]
    wrap = (lambda x: "mk(true, %s)" % x) if is_try else (lambda x: x)
    jn = "ajl_%s" % pid
    items = "macro_rules! %s { ($a:expr, $b:expr) => { { ev(%d); let fb = ($b)(); let fa = ($a)(); ::futures::%s!(fa, fb) } } }" % (jn, J_EV, "try_join" if is_try else "join")
    opts = ["lazy_branches(true)", "custom_joiner(%s!)" % jn]
    if idx % 2:
        opts.reverse()
    later = (lambda k, q: " ~|> move |v: %s| { ev(%d); %s }" % ("Result<u8, u8>" if is_try else "u8", k, "v.map(|x| x ^ %s)" % q if is_try else "v ^ %s" % q)) if steps == 2 else (lambda k, q: "")
    b0 = "(move || { ev(1); ready(%s) })()%s" % (wrap("p0"), later(3, "q0"))
    b1 = "(move || { ev(2); ready(%s) })()%s" % (wrap("p1"), later(4, "q1"))
    text = "%s! {\n        %s\n        %s,\n        %s\n    }" % (macro, " ".join(opts), b0, b1)
    msg = lambda t: "\"C16[%s]: %s\"" % (pid, t)
    L = ["let p0 = u(); let p1 = u(); let q0 = u(); let q1 = u();", "let mut fut = %s;" % text, "let r = poll_once(&mut fut);"]
    exp = "(p0 ^ q0, p1 ^ q1)" if steps == 2 else "(p0, p1)"
    L.append("vassert!(r == Poll::Ready(%s), %s);" % ("Ok(%s)" % exp if is_try else exp, msg("value")))
    L.append("vassert!(cnt(%d) == %d && cnt(1) == 1 && cnt(2) == 1, %s);" % (J_EV, steps, msg("joiner once per multi-branch step, every lazy branch entered exactly once")))
    L.append("vassert!(first(%d) < first(2) && first(2) < first(1), %s);" % (J_EV, msg("lazy_branches(true) hands each branch over as a zero-argument closure also in the async kinds: nothing of a branch runs before the joiner calls it, in the joiner's (reverse) order")))
    if steps == 2:
        L.append("vassert!(cnt(3) == 1 && cnt(4) == 1, %s);" % msg("second-step callbacks run once"))
    L.append("vcover!(true, \"end reached\");")
    return Program(pid, text, "    " + "\n    ".join(L), items=items, desc=dict(macro=macro, options=opts, steps=steps), group="async-lazy/" + macro, role=dict(kind=macro), unwind=12, weight=3, solo=(steps > 1))


JOINER_SHAPES = ["qualified", "assoc", "turbofish", "module", "turbofish_qualified"]


def make_joiner_shape(pid, macro, shape, idx):
    """the joiner *function* written as every kind of path expression that names a function: `<T as Trait>::f`, `T::f`, `f::<A, B>`,
    `self::m::f`, `<T as Trait>::f::<A>` - two branches, two joined steps: invoked once per step, with the active branches in order"""
    is_async, is_try, is_spawn = KINDS[macro]
    el = "Result<u8, u8>" if is_try else "u8"
    mark = (lambda v, m: "%s.map(|x| x ^ %d)" % (v, m)) if is_try else (lambda v, m: "%s ^ %d" % (v, m))
    body = "{ ev(%d); (%s, %s) }" % (J_EV, mark("a", MARK[0]), mark("b", MARK[1]))
    sig = "(a: %s, b: %s) -> (%s, %s)" % (el, el, el, el)
    T, TR, M = "Jt_%s" % pid, "JTr_%s" % pid, "jm_%s" % pid
    if shape == "qualified":
        items = "struct %s; trait %s { fn jn%s; } impl %s for %s { fn jn%s %s }" % (T, TR, sig, TR, T, sig, body)
        j = "<%s as %s>::jn" % (T, TR)
    elif shape == "assoc":
        items = "struct %s; impl %s { fn jn%s %s }" % (T, T, sig, body)
        j = "%s::jn" % T
    elif shape == "turbofish":
        items = "fn jg_%s<A, B>(a: A, b: B) -> (A, B) { ev(%d); (a, b) }" % (pid, J_EV)
        j = "jg_%s::<%s, %s>" % (pid, el, el)
    elif shape == "module":
        items = "mod %s { use crate::rt::*; pub fn jn%s %s }" % (M, sig, body)
        j = "self::%s::jn" % M
    else:
        items = "struct %s; trait %s { fn jn<A>(a: A, b: %s) -> (A, %s); } impl %s for %s { fn jn<A>(a: A, b: %s) -> (A, %s) { ev(%d); (a, %s) } }" % (T, TR, el, el, TR, T, el, el, J_EV, mark("b", MARK[1]))
        j = "<%s as %s>::jn::<%s>" % (T, TR, el)
    marked = {"qualified": (True, True), "assoc": (True, True), "turbofish": (False, False), "module": (True, True), "turbofish_qualified": (False, True)}[shape]
    w = (lambda x: "mk(true, %s)" % x) if is_try else (lambda x: x)
    step = (lambda k, q: "~-> move |v: u8| { ev(%d); mk(true, v ^ %s) }" % (k, q)) if False else None
    if is_try:
        later = lambda k, q: "~|> move |v: u8| { ev(%d); v ^ %s }" % (k, q)
    else:
        later = lambda k, q: "~-> move |v: u8| { ev(%d); v ^ %s }" % (k, q)
    opts = ["custom_joiner(%s)" % j]
    if idx % 2:
        opts.append("lazy_branches(false)")
    if idx % 3 == 0:
        opts.reverse()
    text = "%s! {\n        %s\n        %s %s,\n        %s %s\n    }" % (macro, " ".join(opts), w("p0"), later(3, "q0"), w("p1"), later(4, "q1"))
    msg = lambda t: "\"C16[%s]: %s\"" % (pid, t)
    L = ["let p0 = u(); let p1 = u(); let q0 = u(); let q1 = u();", "let r = %s;" % text]
    e0 = "p0 ^ q0" + (" ^ %d ^ %d" % (MARK[0], MARK[0]) if marked[0] else "")
    e1 = "p1 ^ q1" + (" ^ %d ^ %d" % (MARK[1], MARK[1]) if marked[1] else "")
    # (a mark applied in both steps cancels: the per-step marking is visible through the second-step callbacks' arguments instead)
    L.append("vassert!(r == %s, %s);" % ("Ok((%s, %s))" % (e0, e1) if is_try else "(%s, %s)" % (e0, e1), msg("value")))
    L.append("vassert!(cnt(%d) == 2 && cnt(3) == 1 && cnt(4) == 1, %s);" % (J_EV, msg("custom_joiner(j) with j any path expression naming a function: invoked exactly once per step with more than one active branch")))
    L.append("vassert!(first(%d) < first(3) && first(%d) < first(4) && first(3) < last(%d) && first(4) < last(%d), %s);" % (J_EV, J_EV, J_EV, J_EV, msg("the joiner's output of step k is what step k+1 continues from")))
    L.append("vcover!(true, \"end reached\");")
    return Program(pid, text, "    " + "\n    ".join(L), items=items, desc=dict(macro=macro, joiner_written_as=j, shape=shape, options=opts), group="joiner-shape/" + shape, role=dict(kind=macro), unwind=12, weight=1)


def orders(names, tier):
    perms = list(itertools.permutations(sorted(names)))
    if tier == "quick" and len(perms) > 2:
        return [perms[0], perms[-1]]
    return perms


def programs(tier, seed):
    ps = []
    i = 0
    sync_cfgs = {
        "join": [[], ["joiner"], ["joiner", "lazy"], ["lazy_false"], ["joiner", "lazy_false"], ["transpose_true"], ["joiner", "lazy", "transpose_true"]],
        "try_join": [[], ["joiner"], ["joiner", "lazy"], ["joiner", "transpose_false"], ["joiner", "lazy", "transpose_false"], ["transpose_true"], ["lazy_false"], ["joiner", "transpose_true"]],
        "join_spawn": [["joiner"], ["joiner", "lazy"]],
        "try_join_spawn": [["joiner"], ["transpose_true"]],
    }
    # ((2, 1, 2): the joined branches of step 1 are not neighbours - "exactly those branches, in branch order")
    shapes = [(1, 1), (2, 2), (2, 1), (1, 2, 1), (2, 1, 2)] if tier == "quick" else [(1, 1), (2, 2), (2, 1), (1, 2), (1, 2, 1), (2, 1, 2), (2, 2, 2), (3, 1, 2), (1, 1, 1), (2,)]
    for macro, cfgs in sync_cfgs.items():
        for cfg in cfgs:
            for order in orders(cfg, tier):
                for prof in shapes:
                    i += 1
                    if tier == "quick" and len(order) >= 2 and order != tuple(sorted(cfg)) and prof != (2, 2):
                        continue
                    if tier == "quick" and prof == (2, 1, 2) and "joiner" not in cfg:
                        continue
                    ps.append(make_sync("p%04d" % i, macro, prof, frozenset(cfg), order, i, seed))
    for macro in ("join", "try_join"):
        for k in range(2):
            i += 1
            ps.append(make_lazy_order("p%04d" % i, macro, i))
    for k, shape in enumerate(JOINER_SHAPES):
        for macro in ("join", "try_join"):
            i += 1
            if tier == "quick" and (k + i + seed) % 2:
                continue
            ps.append(make_joiner_shape("p%04d" % i, macro, shape, i))
    for macro in ("join_async", "try_join_async"):
        for steps in (1, 2):
            for k in range(2):
                i += 1
                if tier == "quick" and steps == 2 and k == 1:
                    continue
                ps.append(make_async_lazy("p%04d" % i, macro, steps, i))
    async_cfgs = {
        "join_async": [["path"], ["joiner"], ["path", "joiner"], ["path", "joiner", "lazy_false"]],
        "try_join_async": [["path"], ["joiner", "transpose_false"], ["path", "joiner", "transpose_false"], ["transpose_false"], ["path", "joiner", "transpose_false", "lazy_false"]],
        "join_async_spawn": [["path"]],
        "try_join_async_spawn": [["path"], ["path", "transpose_false"]],
    }
    ashapes = [(1, 1), (2, 1)] if tier == "quick" else [(1, 1), (2, 1), (1, 2), (1, 1, 1), (2, 2)]
    for macro, cfgs in async_cfgs.items():
        for cfg in cfgs:
            ords = orders(cfg, tier)
            if tier == "thorough" and len(cfg) == 4:
                ords = ords[::3]
            for order in ords:
                for prof in ashapes:
                    i += 1
                    if tier == "quick" and (prof != (1, 1) and order != tuple(sorted(cfg))):
                        continue
                    # every program with a path option is built in the renamed-futures crate; the others in the default crate
                    variant = "fx" if "path" in cfg else "default"
                    ps.append(make_async("p%04d" % i, macro, prof, frozenset(cfg), order, i, seed, variant))
    return ps


def generate(tier, seed):
    return pack("c16", programs(tier, seed), 6)


META = dict(
    level="model_checking",
    rule="programs: (macro kind x option set x permutation of the option tokens x profile). Sync kinds: logging/marking joiner functions (plain, tuple-of-Results, lazy = impl FnOnce parameters called in "
         "reverse order, already-transposed Result for transpose_results(false)); async kinds: local joiner macros forwarding to join!/try_join!; every program with futures_crate_path is built in a "
         "second harness crate that has futures only under the renamed package `fx`. Quick tier: first and last permutation of each set, fewer profiles. Packed 6 per query; non-trivial = passed; "
         "distinct = distinct invocation texts",
    functions_encoded=["option parsing loop of JoinInputDefault::parse, defaults in JoinOutput::new, joiner selection / laziness in generate_step, non-transposing continuation in join_steps, futures_crate_path uses"],
    bounds=["branches <= 3, steps <= 2 (quick) / 3", "async programs polled once with always-ready gates"],
    outside=["lazy_branches(false) under thread-spawning macros and lazy_branches(true) without a joiner (ill-typed by the documented semantics)"],
    clauses_not_decided=["'each option at most once' (duplicate options must be rejected at compile time): no solver query can contain a program that must fail to build (DESIGN.md 4)"],
    assumptions=["thread and tokio models of DESIGN.md 2.2"],
)
