"""C11 - block operands are evaluated exactly once, after every branch finished the previous step and before any
branch expression of their step, in branch-then-position order; the value is then used as the operand, also inside
nested wrappers and for both operands of fold / try_fold.

Two-branch programs.  Branch 0 holds the operator site under test (operand written as a logging block), preceded by a
plain logged callback; branch 1 holds a second capture in the same step.  Event clock assertions + value equality with
the reference chain (blocks inline).
"""
from .driver import Program, pack
from .dsl import *
from .profiles import rng, KINDS

C_INIT0, C_S0, C_S1, C_INIT1, C_B1 = 100, 101, 102, 103, 104
L_A, L_SITE, L_B0, L_B1 = 1, 2, 3, 4

# (operator, input type, method, [operand block templates], output type)   {C}=capture event, {K}/{F} symbolic scalars
SITES = [
    ("|>", OPT(U8), "map", ["{ ev({C}); let kk = {K}; move |v: u8| { ev(2); v ^ kk } }"], OPT(U8)),
    ("|>", IT(U8), "map", ["{ ev({C}); let kk = {K}; move |v: u8| { ev(2); v ^ kk } }"], IT(U8)),
    ("=>", OPT(U8), "and_then", ["{ ev({C}); let kk = {K}; move |v: u8| { ev(2); mo(v > kk, v ^ 1) } }"], OPT(U8)),
    ("=>", RES(U8), "and_then", ["{ ev({C}); let kk = {K}; move |v: u8| { ev(2); mk(v > kk, v ^ 1) } }"], RES(U8)),
    ("?>", OPT(U8), "filter", ["{ ev({C}); let kk = {K}; move |v: &u8| { ev(2); *v > kk } }"], OPT(U8)),
    ("?>", IT(U8), "filter", ["{ ev({C}); let kk = {K}; move |v: &u8| { ev(2); *v > kk } }"], IT(U8)),
    ("??", OPT(U8), "inspect", ["{ ev({C}); let kk = {K}; move |v: &Option<u8>| { ev(2); eva(9, v.obs() ^ kk); } }"], OPT(U8)),
    ("->", OPT(U8), None, ["{ ev({C}); let kk = {K}; move |v: Option<u8>| { ev(2); v.map(|x| x ^ kk) } }"], OPT(U8)),
    ("<|", OPT(U8), "or", ["{ ev({C}); mo({F}, {K}) }"], OPT(U8)),
    ("<|", RES(U8), "or", ["{ ev({C}); mk({F}, {K}) }"], RES(U8)),
    ("<=", OPT(U8), "or_else", ["{ ev({C}); let kk = {K}; move || { ev(2); mo({F}, kk) } }"], OPT(U8)),
    ("<=", RES(U8), "or_else", ["{ ev({C}); let kk = {K}; move |e: u8| { ev(2); mk(e > kk, e ^ 1) } }"], RES(U8)),
    ("!>", RES(U8), "map_err", ["{ ev({C}); let kk = {K}; move |e: u8| { ev(2); e ^ kk } }"], RES(U8)),
    (">@>", IT(U8), "chain", ["{ ev({C}); [{K}, {K}].into_iter() }"], IT(U8)),
    (">^>", IT(U8), "zip", ["{ ev({C}); [{K}, {K}].into_iter() }"], IT(PAIR(U8, U8))),
    ("?|>@", IT(U8), "find_map", ["{ ev({C}); let kk = {K}; move |v: u8| { ev(2); mo(v > kk, v ^ 1) } }"], OPT(U8)),
    ("?|>", IT(U8), "filter_map", ["{ ev({C}); let kk = {K}; move |v: u8| { ev(2); mo(v > kk, v ^ 1) } }"], IT(U8)),
    ("?@", IT(U8), "find", ["{ ev({C}); let kk = {K}; move |v: &u8| { ev(2); *v > kk } }"], OPT(U8)),
    ("?&!>", IT(U8), "partition", ["{ ev({C}); let kk = {K}; move |v: &u8| { ev(2); *v > kk } }"], PAIR(VEC(U8), VEC(U8))),
    ("^@", IT(U8), "fold", ["{ ev({C}); {K} }", "{ ev({C}); let kk = {K}; move |a: u8, v: u8| { ev(2); a.wrapping_mul(3) ^ v ^ kk } }"], U8),
    ("?^@", IT(U8), "try_fold", ["{ ev({C}); {K} }", "{ ev({C}); let kk = {K}; move |a: u8, v: u8| { ev(2); mo(v != kk, a ^ v) } }"], OPT(U8)),
]


def fill(ctx, text, caps):
    for c in caps:
        text = text.replace("{C}", str(c), 1)
    while "{K}" in text:
        text = text.replace("{K}", ctx.k(), 1)
    while "{F}" in text:
        text = text.replace("{F}", ctx.f(), 1)
    return text


def make(pid, macro, site, step, depth, idx, seed, with_pre=True):
    """with_pre=False: no plain callback in front of the site, so the site sits at position 1 of branch 0 - the
    (branch, position) pair mirrored by branch 1's initial block at (1, 0)"""
    op, t, method, blocks, out = site
    ctx = Ctx(rng(seed, pid), itlen=2)
    is_async, is_try, is_spawn = KINDS[macro]
    ncap = len(blocks)
    operands = [fill(ctx, b, [C_S0 + j]) for j, b in enumerate(blocks)]
    inner_input = ctx.value(t)
    # ---- branch 0 ------------------------------------------------------------------------------------------
    # the plain callback in front of the site keeps the value and logs L_A
    if with_pre:
        pre_mac = "|> move |v: u8| { ev(%d); v }" % L_A
        pre_ref = lambda b: "%s.map(move |v: u8| { ev(%d); v })" % (b, L_A)
    else:
        pre_mac = ""
        pre_ref = lambda b: b
    if op == "->":
        site_mac = "-> %s" % operands[0]
        site_ref = lambda b: "(%s)(%s)" % (operands[0], b)
    elif op == "??":
        site_mac = "?? %s" % operands[0]
        site_ref = lambda b: "{ let x = %s; (%s)(&x); x }" % (b, operands[0])
    elif op == "?&!>":
        site_mac = "?&!> %s -> move |v: (Vec<u8>, Vec<u8>)| v" % operands[0]
        site_ref = lambda b: "(move |v: (Vec<u8>, Vec<u8>)| v)(%s.partition(%s))" % (b, operands[0])
    else:
        site_mac = "%s %s" % (op, ", ".join(operands))
        site_ref = lambda b: "%s.%s(%s)" % (b, method, ", ".join(operands))
    cur_out = out
    consume_mac, consume_ref = "", (lambda b: b)
    if depth > 0 and cur_out[0] == "it":
        # inside a wrapper a lazy iterator that uses a hoisted block must be consumed inside the closure
        consume_mac = " ^@ 0u8, move |a: u8, v| a ^ v.obs()"
        consume_ref = lambda b: "%s.fold(0u8, move |a: u8, v| a ^ v.obs())" % b
        cur_out = U8
    dfr = "~" if step == 1 else ""
    init0 = "{ ev(%d); %s }" % (C_INIT0, inner_input)
    if depth == 0:
        b0_mac = "%s %s %s%s" % (init0, pre_mac, dfr, site_mac)
        b0_ref = site_ref(pre_ref(init0))
        final0 = cur_out
    else:
        # wrap the input `depth` times into Some(..); the site lives inside `|> >>>` wrappers (closed implicitly)
        wrapped = init0
        inner_ref = lambda w: consume_ref(site_ref(pre_ref(w)))
        inner_mac = "%s %s%s" % (pre_mac, site_mac, consume_mac)
        ref_fn = inner_ref
        for d in range(depth):
            wrapped = "{ ev(%d); Some(%s) }" % (C_INIT0, wrapped.replace("ev(%d); " % C_INIT0, "")) if d == depth - 1 else "Some(%s)" % wrapped
        # initial block logs once (outermost); rebuild cleanly
        wrapped = "{ ev(%d); %s }" % (C_INIT0, "Some(" * depth + inner_input + ")" * depth)
        mac_inner = inner_mac
        reff = inner_ref
        for d in range(depth):
            mac_inner = "|> >>> " + mac_inner
            reff = (lambda f: lambda b: "%s.map(|w| %s)" % (b, f("w")))(reff)
        # the callback in front of the wrapper (for step == 1 the wrapper operator itself is deferred)
        front_mac = "-> move |v| { ev(%d); v }" % L_A if False else ""
        b0_mac = "%s %s%s" % (wrapped, dfr, mac_inner)
        b0_ref = reff(wrapped)
        final0 = cur_out
        for d in range(depth):
            final0 = OPT(final0)
    # ---- branch 1 ------------------------------------------------------------------------------------------
    kb = ctx.k()
    b1_res = is_try and final0[0] == "res"      # a try macro needs the same carrier kind in both branches
    init1 = "{ ev(%d); %s(%s, %s) }" % (C_INIT1, "mk" if b1_res else "mo", ctx.f(), ctx.k())
    cap1 = "{ ev(%d); let kk = %s; move |v: u8| { ev(%d); v ^ kk } }" % (C_B1, kb, L_B1)
    if step == 0:
        b1_mac = "%s |> %s" % (init1, cap1)
        b1_ref = "%s.map(%s)" % (init1, cap1)
    else:
        b1_mac = "%s |> move |v: u8| { ev(%d); v } ~|> %s" % (init1, L_B0, cap1)
        b1_ref = "%s.map(move |v: u8| { ev(%d); v }).map(%s)" % (init1, L_B0, cap1)
    text = "%s! { %s, %s }" % (macro, b0_mac, b1_mac)
    cmp0 = finish(final0)
    L = ["names_off();" if is_spawn else ""] + ctx.decls
    L.append("let m = %s;" % text)
    # ---- order assertions (on the macro run only) ----------------------------------------------------------
    caps_b0 = [C_S0 + j for j in range(ncap)]
    msg = lambda s: "\"C11[%s]: %s\"" % (pid, s)
    once = lambda c: "cnt(%d) == 1" % c
    if is_try and step == 1:
        # try macro: step 1 is reached only if step 0 succeeded in both branches; a successful result implies it was
        L.append("let reached = m.%s;" % ("is_some()" if final0[0] == "opt" else "is_ok()"))
        once = lambda c: "cnt(%d) <= 1 && (!reached || cnt(%d) == 1)" % (c, c)
    if step == 0:
        order = [C_INIT0] + caps_b0 + [C_INIT1, C_B1]
        calls = [L_A, L_SITE, L_B1]
        for c in order:
            L.append("vassert!(cnt(%d) == 1, %s);" % (c, msg("every block operand / block initial value is evaluated exactly once")))
        for a, b in zip(order, order[1:]):
            L.append("vassert!(first(%d) < first(%d), %s);" % (a, b, msg("block operands are evaluated in branch-then-position(-then-operand) order")))
        for c in calls:
            L.append("vassert!(cnt(%d) == 0 || last(%d) < first(%d), %s);" % (c, order[-1], c, msg("all block operands of a step are evaluated before any branch expression of the step")))
    else:
        order = caps_b0 + [C_B1]
        prev_calls = [L_A, L_B0] if (depth == 0 and t[0] != "it") else [L_B0]     # (an iterator's map callback is lazy)
        calls = [L_SITE, L_B1] + ([L_A] if depth > 0 else [])
        for c in [C_INIT0, C_INIT1]:
            L.append("vassert!(cnt(%d) == 1, %s);" % (c, msg("every block initial value is evaluated exactly once")))
        for c in order:
            L.append("vassert!(%s, %s);" % (once(c), msg("every block operand of a reached step is evaluated exactly once")))
        for a, b in zip(order, order[1:]):
            L.append("vassert!(cnt(%d) == 0 || first(%d) < first(%d), %s);" % (b, a, b, msg("block operands are evaluated in branch-then-position(-then-operand) order")))
        for c in prev_calls + [C_INIT0, C_INIT1]:
            L.append("vassert!(cnt(%d) == 0 || cnt(%d) == 0 || last(%d) < first(%d), %s);" % (c, order[0], c, order[0], msg("block operands of step k+1 are evaluated after every branch finished step k")))
        for c in calls:
            L.append("vassert!(cnt(%d) == 0 || last(%d) < first(%d), %s);" % (c, order[-1], c, msg("all block operands of a step are evaluated before any branch expression of the step")))
    # ---- value: the block's value is the operand actually used ----------------------------------------------
    L.append("let im = argx(9);")
    L.append("reset_calls();")
    L.append("let r0 = %s;" % b0_ref)
    L.append("let r1 = %s;" % b1_ref)
    if is_try:
        okpat = "Some" if final0[0] == "opt" else "Ok"
        L.append("let rr = match (r0, r1) { (%s(a), %s(b)) => Some((a, b)), _ => None };" % (okpat, "Ok" if b1_res else "Some"))
        L.append("let mm = match m { %s((a, b)) => Some((a, b)), _ => None };" % ("Some" if final0[0] == "opt" else "Ok"))
        inner_t = final0[1]
        if step == 1:
            # a failure at the end of step 0 aborts the try macro (C06), so the plain chain is the oracle only when the macro succeeded
            L.append("vassert!(match (mm, rr) { (Some((a, b)), Some((c, d))) => %s && b == d, (Some(_), None) => false, _ => true }, %s);" % (finish(inner_t)("a", "c"), msg("the value of the block is used as the operand (try macro)")))
        else:
            L.append("vassert!(match (mm, rr) { (Some((a, b)), Some((c, d))) => %s && b == d, (None, None) => true, _ => false }, %s);" % (finish(inner_t)("a", "c"), msg("the value of the block is used as the operand (try macro)")))
    else:
        L.append("vassert!(%s && m.1 == r1, %s);" % (cmp0("m.0", "r0"), msg("the value of the block is used as the operand")))
    if op == "??":
        if is_try and step == 1:
            L.append("vassert!(!reached || im == argx(9), %s);" % msg("the inspect callback built by the block saw the same value (when its step was reached)"))
        else:
            L.append("vassert!(im == argx(9), %s);" % msg("the inspect callback built by the block saw the same value"))
    L.append("vcover!(true, \"end reached\");")
    desc = dict(macro=macro, operator=op, input_type=str(t), step=step, wrapper_depth=depth, operands=len(blocks))
    w = 1 + (8 if op == "?&!>" else 0) + (3 if t[0] == "it" else 0)
    return Program(pid, text, "    " + "\n    ".join(l for l in L if l), desc=desc, group="%s/step%d/depth%d" % (macro, step, depth), role=dict(kind=macro), unwind=12, weight=w)


# async: future-level sites over ready(..)
ASITES = [
    ("|>", "map", "{ ev({C}); let kk = {K}; move |v: Result<u8, u8>| { ev(2); v.map(|x| x ^ kk) } }"),
    ("=>", "and_then", "{ ev({C}); let kk = {K}; move |v: u8| { ev(2); ready(mk(v > kk, v ^ 1)) } }"),
    ("<=", "or_else", "{ ev({C}); let kk = {K}; move |e: u8| { ev(2); ready(mk(e > kk, e ^ 1)) } }"),
    ("!>", "map_err", "{ ev({C}); let kk = {K}; move |e: u8| { ev(2); e ^ kk } }"),
    ("??", "inspect", "{ ev({C}); let kk = {K}; move |v: &Result<u8, u8>| { ev(2); eva(9, v.obs() ^ kk); } }"),
]


def make_async(pid, macro, asite, step, seed):
    op, method, block = asite
    ctx = Ctx(rng(seed, pid))
    operand = fill(ctx, block, [C_S0])
    init0 = "{ ev(%d); ready(mk(%s, %s)) }" % (C_INIT0, ctx.f(), ctx.k())
    init1 = "{ ev(%d); ready(mk(%s, %s)) }" % (C_INIT1, ctx.f(), ctx.k())
    cap1 = "{ ev(%d); let kk = %s; move |v: Result<u8, u8>| { ev(%d); v.map(|x| x ^ kk) } }" % (C_B1, ctx.k(), L_B1)
    pre = "|> move |v: Result<u8, u8>| { ev(%d); v }" % L_A
    pre1 = "|> move |v: Result<u8, u8>| { ev(%d); v }" % L_B0
    dfr = "~" if step == 1 else ""
    b0 = "%s %s %s%s %s" % (init0, pre, dfr, op, operand)
    b1 = "%s %s %s|> %s" % (init1, pre1, dfr, cap1)
    r0 = "%s.map(move |v: Result<u8, u8>| { ev(%d); v }).%s(%s)" % (init0, L_A, method, operand)
    r1 = "%s.map(move |v: Result<u8, u8>| { ev(%d); v }).map(%s)" % (init1, L_B0, cap1)
    text = "%s! { %s, %s }" % (macro, b0, b1)
    msg = lambda s: "\"C11[%s]: %s\"" % (pid, s)
    L = list(ctx.decls)
    L.append("let mut fm = %s;" % text)
    L.append("vassert!(seq() == 0, %s);" % msg("async macro evaluates no block before the first poll"))
    L.append("let pm = poll_once(&mut fm);")
    order = ([C_INIT0, C_S0, C_INIT1, C_B1] if step == 0 else [C_S0, C_B1])
    gated = KINDS[macro][1] and step == 1
    if gated:
        L.append("let reached = match &pm { Poll::Ready(Ok(_)) => true, _ => false };")
    for c in [C_INIT0, C_INIT1, C_S0, C_B1]:
        if gated and c in (C_S0, C_B1):
            L.append("vassert!(cnt(%d) <= 1 && (!reached || cnt(%d) == 1), %s);" % (c, c, msg("every block of a reached step is evaluated exactly once")))
        else:
            L.append("vassert!(cnt(%d) == 1, %s);" % (c, msg("every block is evaluated exactly once")))
    for a, b in zip(order, order[1:]):
        L.append("vassert!(cnt(%d) == 0 || first(%d) < first(%d), %s);" % (b, a, b, msg("branch-then-position order")))
    if step == 1:
        for c in (L_A, L_B0, C_INIT0, C_INIT1):
            L.append("vassert!(cnt(%d) == 0 || cnt(%d) == 0 || last(%d) < first(%d), %s);" % (c, order[0], c, order[0], msg("blocks of step k+1 after every branch finished step k")))
    for c in ([L_A, L_B0] if step == 0 else []) + [L_SITE, L_B1]:
        L.append("vassert!(cnt(%d) == 0 || last(%d) < first(%d), %s);" % (c, order[-1], c, msg("all blocks of a step before any branch expression of the step")))
    L.append("let im = argx(9);")
    L.append("reset_calls();")
    L.append("let mut fr = Box::pin(async move { (%s.await, %s.await) });" % (r0, r1))
    L.append("let pr = poll_once(&mut fr);")
    if KINDS[macro][1]:
        L.append("let pr = match pr { Poll::Ready((Ok(a), Ok(b))) => Poll::Ready(Some((a, b))), Poll::Ready(_) => Poll::Ready(None), Poll::Pending => Poll::Pending };")
        L.append("let pm = match pm { Poll::Ready(Ok(x)) => Poll::Ready(Some(x)), Poll::Ready(Err(_)) => Poll::Ready(None), Poll::Pending => Poll::Pending };")
    if gated:
        L.append("vassert!(pm.is_ready() && (pm == pr || pm == Poll::Ready(None)), %s);" % msg("the value of the block is used as the operand (async try, when the macro succeeds)"))
    else:
        L.append("vassert!(pm == pr && pm.is_ready(), %s);" % msg("the value of the block is used as the operand (async)"))
    if op == "??":
        L.append("vassert!(im == argx(9) || %s, %s);" % ("pm == Poll::Ready(None)" if KINDS[macro][1] else "false", msg("inspect callback saw the same value")))
    L.append("vcover!(true, \"end reached\");")
    return Program(pid, text, "    " + "\n    ".join(L), desc=dict(macro=macro, operator=op, step=step), group="%s/step%d" % (macro, step), role=dict(kind=macro),
                   unwind=12, weight=4, solo=(step == 1))


TRIVIAL = ["or-cross", "or-same", "fold-init", "chain-arr", "or-step1", "try-or-cross", "zip-arr-step1"]


def make_trivial(pid, shape):
    """block operands that consist of nothing but a variable (`{ name }`): they are evaluated - i.e. the variable is READ - once, before any
    branch expression of their step, like every other block.  An earlier expression of the step (another branch, or the same branch) assigns
    a different value to the variable afterwards; the operand must still be the value the variable held when the step began"""
    msg = lambda t: "\"C11[%s]: %s\"" % (pid, t)
    L = ["let f0 = b(); let f1 = b(); let f2 = b(); let k0 = u(); let k1 = u(); let k2 = u(); let k3 = u(); let p0 = u();"]
    macro = "try_join" if shape.startswith("try") else "join"
    if shape in ("or-cross", "try-or-cross", "or-step1"):
        L.append("let mut opnd = mo(f1, k1); let orig = opnd;")
        t = "~" if shape == "or-step1" else ""
        text = "%s! { Some(p0) %s|> |v: u8| { ev(1); opnd = mo(f2, k2); v }, mo(f0, k0) %s<| { opnd } }" % (macro, t, t)
        if shape == "try-or-cross":
            L.append("nd::assume(f0 || f1);")   # (the try macro would stop at a None)
            exp = "Some((p0, mo(f0, k0).or(orig).unwrap()))"
        else:
            exp = "(Some(p0), mo(f0, k0).or(orig))"
        after = "opnd == mo(f2, k2)"
    elif shape == "or-same":
        L.append("let mut opnd = mo(f1, k1); let orig = opnd;")
        text = "join! { Some(p0) |> |v: u8| { ev(1); opnd = mo(f2, k2); v } ?> |v: &u8| *v > k3 <| { opnd }, k0 }"
        exp = "(Some(p0).filter(|v| *v > k3).or(orig), k0)"
        after = "opnd == mo(f2, k2)"
    elif shape == "fold-init":
        L.append("let mut init = k1; let orig = init;")
        text = "join! { Some(p0) |> |v: u8| { ev(1); init = k2; v }, [k0, k3].into_iter() ^@ { init }, |a: u8, v: u8| a.wrapping_mul(3) ^ v }"
        exp = "(Some(p0), (orig.wrapping_mul(3) ^ k0).wrapping_mul(3) ^ k3)"
        after = "init == k2"
    elif shape == "chain-arr":
        L.append("let mut arr = [k1, k2]; let orig = arr;")
        text = "join! { Some(p0) |> |v: u8| { ev(1); arr = [k3, k3]; v }, [k0].into_iter() >@> { arr } ^@ 1u8, |a: u8, v: u8| a.wrapping_mul(3) ^ v }"
        exp = "(Some(p0), ((3u8 ^ k0).wrapping_mul(3) ^ orig[0]).wrapping_mul(3) ^ orig[1])"
        after = "arr == [k3, k3]"
    else:
        L.append("let mut arr = [k1, k2]; let orig = arr;")
        text = "join! { Some(p0) ~|> |v: u8| { ev(1); arr = [k3, k3]; v }, [k0, p0].into_iter() ~>^> { arr } ^@ 1u8, |a: u8, v: (u8, u8)| a.wrapping_mul(3) ^ v.0 ^ v.1.wrapping_mul(5) }"
        exp = "(Some(p0), ((3u8 ^ k0 ^ orig[0].wrapping_mul(5)).wrapping_mul(3)) ^ p0 ^ orig[1].wrapping_mul(5))"
        after = "arr == [k3, k3]"
    L.append("let r = %s;" % text)
    L.append("vassert!(r == %s, %s);" % (exp, msg("a block operand `{ name }` is evaluated before any branch expression of its step: the operand is the value `name` held when the step began")))
    L.append("vassert!(cnt(1) == 1 && %s, %s);" % (after, msg("the assigning callback ran (the variable now holds the new value)")))
    L.append("vcover!(true, \"end reached\");")
    return Program(pid, text, "    " + "\n    ".join(L), desc=dict(macro=macro, shape=shape, operand="a block that is just a variable"), group="trivial-block/" + shape, role=dict(kind=macro), unwind=12, weight=1)


def programs(tier, seed):
    ps = []
    i = 0
    for si, site in enumerate(SITES):
        for step in (0, 1):
            for depth in (0, 1, 2):
                for mi, macro in enumerate(("join", "try_join", "join_spawn")):
                    i += 1
                    if macro == "try_join" and not (site[4][0] in ("opt", "res") and site[1][0] in ("opt", "res") and depth == 0):
                        continue        # every branch value at a step boundary of a try macro must be an Option / Result
                    if site[0] == "?&!>" and macro != "join":
                        continue        # two Vecs of symbolic length under the thread model do not finish within the caps
                    if tier == "quick" and (si + step + depth + mi + seed) % 3 != 0:
                        continue
                    ps.append(make("p%04d" % i, macro, site, step, depth, i, seed, with_pre=(i % 2 == 0) or depth > 0))
    for ai, asite in enumerate(ASITES):
        for step in (0, 1):
            for mi, macro in enumerate(("join_async", "try_join_async")):
                i += 1
                if tier == "quick" and (step == 1 and (ai + mi) % 3 != 0):
                    continue
                if macro == "try_join_async" and asite[0] == "??" and False:
                    continue
                ps.append(make_async("p%04d" % i, macro, asite, step, seed))
    for k, shape in enumerate(TRIVIAL):
        i += 1
        if tier == "quick" and (k + seed) % 2 and shape not in ("or-cross", "or-step1"):
            continue
        ps.append(make_trivial("p%04d" % i, shape))
    return ps


def generate(tier, seed):
    return pack("c11", programs(tier, seed), 6)


META = dict(
    level="model_checking",
    rule="programs: operator site (21 sites over 16 operators with expression operands, both operands of fold/try_fold, block initial values) x step in {0,1} x wrapper depth in {0,1,2} x "
         "{join!, try_join!, join_spawn!} (quick: one third, seed-rotated) + five future-level sites x step x {join_async!, try_join_async!}; two branches each; packed 6 per query; "
         "non-trivial = passed; distinct = distinct invocation texts",
    functions_encoded=["expansions with block operands (separate_block_expr, is_replaceable / replace_inner_exprs, definitions emitted before the step's joined expression, wrap_last_step_stream)"],
    bounds=["2 branches", "steps 0 and 1", "wrapper depth <= 2 (|> >>> on Option)", "iterators of 2 elements"],
    outside=["relative evaluation order of non-block operand expressions (no property fixes it)", "block captures inside a wrapper whose lazy iterator result leaves the macro (hoisting makes that ill-typed)"],
    assumptions=["thread model for join_spawn!", "gate-free ready(..) futures for the async sites"],
)
