"""C06 - try macros: a failed step aborts everything after it.

Monitors: every initial expression, step callback, second (instant) action, block capture and the handler logs
an event.  With FS = earliest failing step (closed form over the symbolic ok flags):
  * an item of step s runs exactly once iff s <= FS (sync / thread kinds: the failing step runs to its end in
    every active branch), never when s > FS;
  * the map / and_then handler runs iff no step fails.
Async kinds: nothing of a step > FS runs, everything of steps < FS ran once (siblings of the failing branch in
step FS itself are not constrained: futures::try_join! may drop them).
"""
from .driver import Program, pack
from .pp import *


def make(pid, macro, profile, idx, seed, gates=None, heavy=False, amap=False):
    """amap: later async steps are synchronous callbacks under FutureExt::map, which run whatever the value is - so a step
    that is entered although an earlier one failed is visible in the counters (and_then callbacks would hide it)"""
    r = rng(seed, pid)
    is_async, is_try, is_spawn = KINDS[macro]
    carrier = "res" if (is_async or idx % 2 == 0) else "opt"
    handler = [None, "map", "and_then"][idx % 3]
    styles, captures, extra = {}, set(), set()
    for b, d in enumerate(profile):
        for s in range(d):
            if s >= 1 and not is_async:
                styles[(b, s)] = ["and_then", "then"][(idx + b + s + r.randrange(2)) % 2]
            if s >= 1 and is_async and amap:
                styles[(b, s)] = "amap"
            if s >= 1 and r.random() < 0.5:
                captures.add((b, s))
            if not is_async and r.random() < 0.3:
                extra.add((b, s))
    pp = PP(macro, profile, carrier=carrier, can_fail=True, handler=handler, styles=styles, captures=captures,
            init_blocks=not is_async, extra_instant=extra, gates=gates)
    text = pp.text()
    L = ["names_off();" if is_spawn and not is_async else "", pp.decls()]
    if is_async:
        L.append("let mut fut = %s;" % text)
        L.append("let (r, polls, lost) = drive(&mut fut, %d);" % pp.max_polls())
        L.append("vassert!(r.is_some(), \"C06[%s]: completes\");" % pid)
    else:
        L.append("let r = %s;" % text)
        L.append("vassert!(r == %s, \"C06[%s]: result (as C05)\");" % (pp.first_failure_spec(), pid))
    L.append("let fs: u8 = %s;" % pp.fail_step_expr())
    for b, d in enumerate(profile):
        for s in range(d):
            if is_async:
                L.append("if fs > %d { vassert!(cnt(%d) == 1 && cnt(%d) == 1, \"C06[%s]: a step before the failing one ran completely\"); }" % (s, E(b, s, 0), E(b, s, 1), pid))
                L.append("if fs < %d { vassert!(cnt(%d) == 0, \"C06[%s]: nothing of a step after the failing one is evaluated (async)\"); }" % (s, E(b, s, 0), pid))
                if (b, s) in captures:
                    L.append("vassert!(cnt(%d) == (fs >= %d) as u8, \"C06[%s]: block capture of a later step is skipped / of a reached step runs once (async)\");" % (CAP(b, s), s, pid))
                continue
            if s == 0:
                L.append("vassert!(cnt(%d) == 1, \"C06[%s]: every initial expression is evaluated once\");" % (INIT(b), pid))
            else:
                L.append("vassert!(cnt(%d) == (fs >= %d) as u8, \"C06[%s]: callback of step s runs iff no earlier step failed (failing step runs in every active branch)\");" % (E(b, s), s, pid))
                if (b, s) in captures:
                    L.append("vassert!(cnt(%d) == (fs >= %d) as u8, \"C06[%s]: block capture of step s is evaluated iff no earlier step failed\");" % (CAP(b, s), s, pid))
            if (b, s) in extra:
                L.append("vassert!(cnt(%d) == (fs >= %d && %s) as u8, \"C06[%s]: second action of the step runs iff the step is reached and its first action succeeded\");" % (E(b, s, 1), s, pp.ok(b, s), pid))
    if handler:
        L.append("vassert!(cnt(%d) == (fs == 255) as u8, \"C06[%s]: map/and_then handler is called iff nothing failed\");" % (H_EV, pid))
    maxd = max(profile)
    if maxd > 1:
        L.append("vcover!(fs == 0, \"failure in the first step\");")
        L.append("vcover!(fs == %d, \"failure in the last step only\");" % (maxd - 1))
    L.append("vcover!(fs == 255, \"no failure\");")
    body = "\n    ".join(l for l in L if l)
    desc = dict(macro=macro, profile=list(profile), carrier=carrier, handler=handler, captures=sorted(captures), second_actions=sorted(extra),
                symbolic=["ok flag and payload at each position"] + (["early/late bit per thread"] if is_spawn and not is_async else []) + (["pending count per gate <= %d" % gates] if gates else []))
    return Program(pid, text, "    " + body, desc=desc, group=macro, role=dict(kind=macro), heavy=heavy, solo=is_async and (max(profile) > 1 or len(profile) > 2),
                   unwind=64 if not is_async else max(12, pp.max_polls() + 3))


def make_wrapper_step(pid, macro, tok, idx):
    """a later step that is opened by a DEFERRED wrapper (`~X >>> inner <<<`): the whole wrapper belongs to the next step, so nothing inside it
    runs once the previous step has failed in ANY branch (and `~<= >>>` / `~!> >>>`, which act on the error side, never run at all: a step
    that is reached holds a success).  Two branches; branch 1 carries the wrapper step; every ok flag and payload symbolic"""
    is_async, is_try, is_spawn = KINDS[macro]
    EW, EC0, EC2 = 40, 41, 42
    if is_async:
        inner = {"=>": "-> move |x: u8| { ev(%d); ready(mk(o1_1, x ^ q)) }" % EW,
                 "<=": "-> move |e: u8| { ev(%d); ready(mk(o1_1, e ^ q)) }" % EW,
                 "!>": "-> move |e: u8| { ev(%d); e ^ q }" % EW}[tok]
        b0 = "ready(mk(o0_0, p0)) |> move |r: Result<u8, u8>| { ev(%d); r }" % EC0
        b1 = "ready(mk(o1_0, p1)) ~%s >>> %s <<< ~|> move |r: Result<u8, u8>| { ev(%d); r }" % (tok, inner, EC2)
    else:
        inner = {"=>": "-> move |x: u8| { ev(%d); mk(o1_1, x ^ q) }" % EW,
                 "|>": "-> move |x: u8| { ev(%d); x ^ q }" % EW,
                 "??": "-> move |r: &Result<u8, u8>| { ev(%d); }" % EW,
                 "<=": "-> move |e: u8| { ev(%d); mk(o1_1, e ^ q) }" % EW,
                 "!>": "-> move |e: u8| { ev(%d); e ^ q }" % EW}[tok]
        b0 = "mk(o0_0, p0) |> move |v: u8| { ev(%d); v }" % EC0
        b1 = "mk(o1_0, p1) ~%s >>> %s <<< ~|> move |v: u8| { ev(%d); v }" % (tok, inner, EC2)
    text = "%s! {\n        %s,\n        %s\n    }" % (macro, b0, b1)
    msg = lambda t: "\"C06[%s]: %s\"" % (pid, t)
    L = ["names_off();" if is_spawn and not is_async else "", "let o0_0 = b(); let o1_0 = b(); let o1_1 = b(); let p0 = u(); let p1 = u(); let q = u();"]
    if is_async:
        L.append("let mut fut = %s;" % text)
        L.append("let (r, polls, lost) = drive(&mut fut, 4);")
        L.append("vassert!(r.is_some(), %s);" % msg("completes"))
        L.append("let r = r.unwrap();")
    else:
        L.append("let r = %s;" % text)
    step1_fails = "!o1_1" if tok == "=>" else "false"
    v1 = "p1 ^ q" if tok in ("=>", "|>") else "p1"
    # closed form (C05): first failure in step order, branch order
    if is_async:
        # (an async try macro may report either failing branch of a step)
        L.append("if !o0_0 && o1_0 { vassert!(r == Err(p0), %s); }" % msg("result"))
        L.append("if o0_0 && !o1_0 { vassert!(r == Err(p1), %s); }" % msg("result"))
        L.append("if !o0_0 && !o1_0 { vassert!(r == Err(p0) || r == Err(p1), %s); }" % msg("result"))
    else:
        L.append("if !o0_0 { vassert!(r == Err(p0), %s); } else if !o1_0 { vassert!(r == Err(p1), %s); }" % (msg("result"), msg("result")))
    L.append("if o0_0 && o1_0 { vassert!(r == if %s { Err(%s) } else { Ok((p0, %s)) }, %s); }" % (step1_fails, v1, v1, msg("result")))
    if tok in ("<=", "!>"):
        L.append("vassert!(cnt(%d) == 0, %s);" % (EW, msg("an error-side wrapper of a later step never runs: a step is reached only with a success")))
    else:
        L.append("vassert!(cnt(%d) == (o0_0 && o1_0) as u8, %s);" % (EW, msg("nothing inside a `~X >>> .. <<<` step is evaluated after the previous step failed in any branch; it runs once otherwise")))
    L.append("vassert!(cnt(%d) == (o0_0 && o1_0 && !(%s)) as u8, %s);" % (EC2, step1_fails, msg("the step after the wrapper step runs iff no earlier step failed")))
    L.append("vcover!(!o0_0 && o1_0, \"the other branch fails in the step before the wrapper step\");")
    L.append("vcover!(o0_0 && !o1_0, \"the wrapper's own branch fails in the step before\");")
    L.append("vcover!(o0_0 && o1_0, \"wrapper step reached\");")
    return Program(pid, text, "    " + "\n    ".join(l for l in L if l), desc=dict(macro=macro, wrapper=tok, deferred=True, symbolic=["ok flags", "payloads"] + (["early/late bit per thread"] if is_spawn and not is_async else [])),
                   group="wrapper-step/" + macro, role=dict(kind=macro), unwind=64 if not is_async else 12, solo=is_async, weight=2)


def programs(tier, seed):
    ps = []
    i = 0
    profs = profiles(3, 3) if tier == "quick" else profiles(4, 3)
    for macro in ("try_join", "try_join_spawn"):
        for prof in profs:
            if max(prof) == 1 and len(prof) > 1 and tier == "quick":
                continue   # single-step programs have no later step; keep n = 1 only
            if tier == "quick" and KINDS[macro][2] and len(prof) == 3 and sum(prof) > 6:
                continue
            i += 1
            ps.append(make("p%04d" % i, macro, prof, i, seed))
    if tier == "quick":
        aprofs = {"try_join_async": [((1, 2), 0), ((2, 1, 1), 0)], "try_join_async_spawn": [((2, 1), 0)]}
    else:
        aprofs = {"try_join_async": [((1, 2), 1), ((2, 2), 0), ((2, 1, 1), 1), ((2, 1, 2), 0), ((3, 1), 0)], "try_join_async_spawn": [((2, 1), 1), ((2, 2), 0)]}
    for macro, lst in aprofs.items():
        for prof, gates in lst:
            i += 1
            ps.append(make("p%04d" % i, macro, prof, i, seed, gates=gates, heavy=(tier == "thorough" and gates > 0)))
    # steps with a single active branch that are not the last one (awaited directly, no try_join!), map-style later steps
    for macro, prof in (("try_join_async", (3,)), ("try_join_async", (1, 3)), ("try_join_async", (3, 1)), ("try_join_async_spawn", (1, 3)), ("try_join_async", (2, 3))):
        i += 1
        ps.append(make("p%04d" % i, macro, prof, i, seed, gates=0, amap=True))
    for macro, toks in (("try_join", ("=>", "|>", "??", "<=", "!>")), ("try_join_spawn", ("=>", "??", "<=")), ("try_join_async", ("=>", "<="))):
        for tok in toks:
            i += 1
            if tier == "quick" and macro == "try_join_spawn" and tok != ["=>", "??", "<="][seed % 3]:
                continue
            ps.append(make_wrapper_step("p%04d" % i, macro, tok, i))
    return ps


def generate(tier, seed):
    return pack("c06", programs(tier, seed), 6)


META = dict(
    level="model_checking",
    rule="one program per (try macro kind, depth profile); carrier, handler, step operators, block captures (p=0.5 per later position) and second actions (p=0.3) "
         "vary with index and seed; packed 6 per query; non-trivial = passed with witnesses (failure in first step / in last step only / none); distinct = distinct invocation texts",
    functions_encoded=["expansions of try_join!, try_join_spawn!, try_join_async!, try_join_async_spawn! (JoinOutput::join_steps success arm nesting, "
                       "block-capture definitions per step, generate_handle map/and_then)"],
    bounds=["branches <= 3 (quick) / 4 (thorough), steps <= 3", "async: profiles listed in gen_c06.py, gates pending <= 1", "thread placement in {earliest, latest}"],
    outside=["which siblings of a failing async branch finish the failing step", "interleavings inside thread bodies"],
    assumptions=["thread and tokio models of DESIGN.md 2.2", "format! model returns an empty string (names are not observed here)"],
)
