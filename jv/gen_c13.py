"""C13 - handlers: map / and_then only on success, then always, exactly once, arguments in branch order;
in async macros the future returned by `then` / `and_then` is awaited.

Symbolic: outcome and payload of every position, outcome of the and_then handler itself, pending count of the
gate the async handler awaits.  Not decided here: the compile-time rejection clause (DESIGN.md 4).
"""
from .driver import Program, pack
from .pp import *


def make(pid, macro, profile, handler, hpos, idx, seed, gates=None, hgate=False, heavy=False):
    is_async, is_try, is_spawn = KINDS[macro]
    if is_try:
        carrier = "res" if (is_async or idx % 2 == 0 or handler == "and_then" and idx % 4 == 1) else "opt"
    else:
        carrier = ["raw", "opt", "res"][idx % 3]
    styles = {}
    for b, d in enumerate(profile):
        for s in range(1, d):
            if is_async:
                styles[(b, s)] = "amap"
            elif carrier != "raw":
                styles[(b, s)] = ["and_then", "then"][(idx + b + s) % 2]
    pp = PP(macro, profile, carrier=carrier, can_fail=True, handler=handler, styles=styles, gates=gates)
    pp.gate_steps = {0}
    pp.handler_pos = hpos
    pp.handler_fail = handler == "and_then"
    pp.handler_gate = hgate
    text = pp.text()
    L = ["names_off();" if is_spawn and not is_async else "", pp.decls()]
    if pp.handler_fail:
        L.append("let hok = b(); let hp = u();")
    if hgate:
        L.append("let hn = upto(1);")
    all_ok = pp.all_ok()
    # expected value
    if is_try:
        ok_val = pp.expected_success()
        if handler == "and_then":
            rev = list(reversed(pp.final_vals()))
            t = rev[0] if pp.n == 1 else "(" + ", ".join(rev) + ")"
            ok_val = "if hok { %s } else { %s }" % (pp.wrap_ok(t), "Err(hp)" if carrier == "res" else "None")
        chain = []
        for s, b in pp.positions():
            if pp.ok(b, s) != "true":
                chain.append("if !%s { %s }" % (pp.ok(b, s), "Err(%s)" % val(b, s) if carrier == "res" else "None"))
        chain.append("{ %s }" % ok_val)
        expect = " else ".join(chain)
    else:
        expect = pp.expected_nontry()
    if is_async:
        L.append("let mut fut = %s;" % text)
        L.append("vassert!(seq() == 0, \"C13[%s]: nothing runs before the first poll\");" % pid)
        L.append("let (r, polls, lost) = drive(&mut fut, %d);" % (pp.max_polls() + (1 if hgate else 0)))
        L.append("vassert!(r.is_some(), \"C13[%s]: completes\");" % pid)
        L.append("let r = r.unwrap();")
        nfail = " + ".join("(!%s) as u8" % pp.ok(b, s) for s, b in pp.positions() if pp.ok(b, s) != "true") or "0"
        if is_try:
            L.append("if %s { vassert!(r == %s, \"C13[%s]: Some/Ok(f(..)) resp. f(..) of the awaited handler future on success\"); } else { vassert!(r.is_err(), \"C13[%s]: failure is returned when a branch fails\"); }" % (all_ok, ok_val, pid, pid))
        else:
            L.append("vassert!(r == %s, \"C13[%s]: then handler's awaited value is the macro's value\");" % (expect, pid))
    else:
        L.append("let r = %s;" % text)
        L.append("vassert!(r == %s, \"C13[%s]: map => Some/Ok(f(..)), and_then => f(..), then => f(raw values); arguments in branch order; failure otherwise\");" % (expect, pid))
    if handler in ("map", "and_then"):
        L.append("vassert!(cnt(%d) == (%s) as u8, \"C13[%s]: map/and_then handler runs exactly once iff every branch succeeded\");" % (H_EV, all_ok, pid))
    else:
        L.append("vassert!(cnt(%d) == 1, \"C13[%s]: then handler always runs exactly once\");" % (H_EV, pid))
    if hgate:
        L.append("vcover!(hn == 1 && cnt(%d) == 1, \"handler future was pending once and completed\");" % H_EV)
    if handler == "and_then":
        L.append("vcover!(%s && !hok, \"all branches succeed but the and_then handler fails\");" % all_ok)
    if pp.can_fail and carrier != "raw":
        L.append("vcover!(!(%s), \"some position fails\");" % all_ok)
    L.append("vcover!(%s, \"all positions succeed\");" % all_ok)
    body = "\n    ".join(l for l in L if l)
    desc = dict(macro=macro, profile=list(profile), carrier=carrier, handler=handler, handler_written_at=hpos,
                symbolic=["ok flag and payload at each position"] + (["outcome of the and_then handler"] if pp.handler_fail else []) + (["pending count of the handler's gate"] if hgate else []))
    return Program(pid, text, "    " + body, desc=desc, group="%s/%s" % (macro, handler), role=dict(kind=macro, handler=handler), heavy=heavy,
                   solo=is_async and (max(profile) > 1 or hgate), unwind=64 if not is_async else max(12, pp.max_polls() + 4))


def make_nocomma(pid, macro, handler, blockpos):
    """the handler written directly after a branch that ends with a `{ .. }` block, WITHOUT a comma in between (the comma after a block-ended
    branch is optional): the handler is still recognised as the handler - called as C13 states, its value is the macro's value"""
    is_async, is_try, is_spawn = KINDS[macro]
    msg = lambda t: "\"C13[%s]: %s\"" % (pid, t)
    w = (lambda f_, x: "mk(%s, %s)" % (f_, x)) if is_try else (lambda f_, x: x)
    if is_async:
        w0 = lambda f_, x: "ready(%s)" % w(f_, x)
    else:
        w0 = w
    vty = "Result<u8, u8>" if (is_try and is_async) else "u8"
    upd = "r.map(|v| v ^ q)" if (is_try and is_async) else "v ^ q"
    arg = "r" if (is_try and is_async) else "v"
    if blockpos == "initial":
        last = "{ ev(2); %s }" % w0("o1", "p1")
        e1 = "p1"
    else:
        op = "|>" if (is_try or is_async) else "->"
        last = "%s %s { ev(2); move |%s: %s| %s }" % (w0("o1", "p1"), op, arg, vty, upd)
        e1 = "p1 ^ q"
    hargs = "a: %s, b: %s" % (("u8", "u8") if handler in ("map", "and_then") else (("Result<u8, u8>",) * 2 if is_try else ("u8", "u8")))
    if handler == "map":
        hbody = "{ ev(%d); (b, a) }" % H_EV
    elif handler == "and_then":
        hbody = "{ ev(%d); mk(hok, b ^ a) }" % H_EV
        if is_async:
            hbody = "async move %s" % hbody
    else:
        hbody = "{ ev(%d); (b, a) }" % H_EV
        if is_async:
            hbody = "async move %s" % hbody
    text = "%s! { %s, %s %s => move |%s| %s }" % (macro, w0("o0", "p0"), last, handler, hargs, hbody)
    L = ["names_off();" if is_spawn and not is_async else "", "let o0 = b(); let o1 = b(); let hok = b(); let p0 = u(); let p1 = u(); let q = u();"]
    if is_async:
        L.append("let mut fut = %s;" % text)
        L.append("let r = match poll_once(&mut fut) { Poll::Ready(r) => r, Poll::Pending => { vassert!(false, %s); return; } };" % msg("ready futures: one poll completes"))
    else:
        L.append("let r = %s;" % text)
    if not is_try:
        L.append("vassert!(r == (%s, p0) && cnt(%d) == 1 && cnt(2) == 1, %s);" % (e1, H_EV, msg("`then` handler after a block-ended branch without a comma: called once with the raw values, its value is the macro's value")))
    else:
        ok = "o0 && o1"
        if handler == "map":
            L.append("if %s { vassert!(r == Ok((%s, p0)) && cnt(%d) == 1, %s); } else { vassert!(r.is_err() && cnt(%d) == 0, %s); }" % (ok, e1, H_EV, msg("`map` handler after a block-ended branch without a comma: Ok(f(..)) iff every branch succeeded"), H_EV, msg("handler not called on failure")))
        else:
            L.append("if %s { vassert!(r == mk(hok, %s ^ p0) && cnt(%d) == 1, %s); } else { vassert!(r.is_err() && cnt(%d) == 0, %s); }" % (ok, e1, H_EV, msg("`and_then` handler after a block-ended branch without a comma: f(..) iff every branch succeeded"), H_EV, msg("handler not called on failure")))
        L.append("vcover!(!(%s), \"a branch fails\");" % ok)
    L.append("vcover!(true, \"end reached\");")
    return Program(pid, text, "    " + "\n    ".join(l for l in L if l), desc=dict(macro=macro, handler=handler, block=blockpos, comma_before_handler=False), group="nocomma/%s" % macro, role=dict(kind=macro, handler=handler), unwind=64 if not is_async else 12, weight=1)


def programs(tier, seed):
    ps = []
    i = 0
    shapes = [(1,), (1, 1), (2, 1), (1, 1, 1), (1, 2, 1), (2, 2)] if tier == "quick" else [(1,), (2,), (1, 1), (2, 1), (1, 2), (1, 1, 1), (1, 2, 1), (2, 2), (3, 1, 2), (2, 2, 2), (1, 1, 1, 1), (2, 1, 3, 1)]
    for macro in ("join", "try_join", "join_spawn", "try_join_spawn"):
        hs = ("map", "and_then") if KINDS[macro][1] else ("then",)
        for handler in hs:
            for prof in shapes:
                positions = [None, 0] if len(prof) == 1 else [None, 0, 1]
                if tier == "quick" and KINDS[macro][2]:
                    positions = positions[-1:]
                for hpos in positions:
                    i += 1
                    ps.append(make("p%04d" % i, macro, prof, handler, hpos, i, seed))
    # async: handler futures
    alist = [("join_async", (1, 1), "then", None, None, False), ("try_join_async", (1, 1), "and_then", 0, None, False), ("try_join_async", (1, 1), "map", 1, None, False),
             ("join_async", (1, 1), "then", 1, None, True), ("try_join_async", (1,), "and_then", None, None, True)]
    # single-branch programs: the handler is applied to a bare value, not to a tuple (every kind x legal handler kind)
    alist += [("try_join_async", (1,), "map", None, None, False), ("try_join_async", (2,), "map", 0, None, False), ("try_join_async_spawn", (1,), "map", None, None, False),
              ("try_join_async_spawn", (1,), "and_then", 0, None, False), ("join_async", (1,), "then", None, None, False), ("join_async_spawn", (1,), "then", 0, None, False),
              ("join_async_spawn", (1, 1), "then", 1, None, False), ("try_join_async_spawn", (1, 1), "map", None, None, False)]
    if tier == "thorough":
        alist += [("try_join_async", (1, 1), "and_then", 1, 1, True), ("join_async", (2, 1), "then", 0, 1, True), ("try_join_async", (2, 1), "map", None, 1, False),
                  ("join_async_spawn", (1, 1), "then", None, 1, True), ("try_join_async_spawn", (1, 1), "and_then", None, 1, True), ("try_join_async_spawn", (1, 1), "map", 0, None, False),
                  ("try_join_async", (1, 1, 1), "and_then", 2, 1, True)]
    for macro, prof, handler, hpos, gates, hgate in alist:
        i += 1
        ps.append(make("p%04d" % i, macro, prof, handler, hpos, i, seed, gates=gates, hgate=hgate, heavy=(tier == "thorough" and (gates or 0) > 0 and hgate)))
    i = 600
    for macro in ("join", "try_join", "join_spawn", "try_join_spawn", "join_async", "try_join_async"):
        for handler in (("map", "and_then") if KINDS[macro][1] else ("then",)):
            for blockpos in ("initial", "operand"):
                i += 1
                if tier == "quick" and (i + seed) % 2 and macro not in ("join", "try_join"):
                    continue
                ps.append(make_nocomma("p%04d" % i, macro, handler, blockpos))
    return ps


def generate(tier, seed):
    return pack("c13", programs(tier, seed), 8)


META = dict(
    level="model_checking",
    rule="one program per (macro kind, legal handler kind, branch shape, handler written last / first / second); carriers and step operators vary with index; async programs whose handler "
         "returns a future awaiting a gate with a symbolic pending count; packed 8 per query; non-trivial = passed with witnesses (all succeed / some position fails / and_then handler itself fails / "
         "handler future pending once); distinct = distinct invocation texts",
    functions_encoded=["expansions of all eight macro kinds with handlers (Handler parsing, JoinOutput::generate_handle, extract_results_tuple with handler, handler definition hoisting)"],
    bounds=["branches <= 3 (quick) / 4 (thorough), steps <= 2 (quick) / 3", "handler gate pending <= 1"],
    outside=["more branches"],
    clauses_not_decided=["'a handler of the wrong kind for the macro, or a second handler, is rejected at compile time': no solver query can contain a program that must fail to build; "
                         "the expander cannot be executed symbolically (DESIGN.md 1.1, 4)"],
    assumptions=["thread and tokio models of DESIGN.md 2.2", "format! model returns an empty string"],
)
