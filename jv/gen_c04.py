"""C04 - result positions: branch i's final value is element i (bare value for one branch), the handler receives
the values in branch order, a branch that finished early keeps its value.

Every position xors its own symbolic payload in, all branches have the same type, so any mis-routing between
same-typed slots is a solver counterexample.  The handler returns its arguments in reverse order.
"""
from .driver import Program, pack
from .pp import *


def make(pid, macro, profile, idx, seed, gates=None, heavy=False, force_handler=False):
    r = rng(seed, pid)
    is_async, is_try, is_spawn = KINDS[macro]
    if is_try:
        carrier = "res" if (is_async or idx % 2 == 0) else "opt"
    else:
        carrier = ["raw", "opt"][idx % 2]
    handler = None
    if idx % 3 == 1 or force_handler:
        handler = ("map" if idx % 2 else "and_then") if is_try else "then"
    lets = {}
    for b in range(len(profile)):
        if r.random() < 0.4:
            lets[b] = "let mut" if r.random() < 0.5 else "let"
    styles = {}
    if carrier != "raw" and not is_async:
        for b, d in enumerate(profile):
            for s in range(1, d):
                styles[(b, s)] = ["and_then", "map", "then"][(idx + b + s + r.randrange(3)) % 3]
    if is_async:
        # value routing is what is checked here: later async steps are synchronous callbacks under FutureExt::map (cheap form)
        for b, d in enumerate(profile):
            for s in range(1, d):
                styles[(b, s)] = "amap"
    pp = PP(macro, profile, carrier=carrier, can_fail=False, handler=handler, lets=lets, styles=styles, gates=gates)
    if handler:
        pp.handler_pos = [None, 0, 1][idx % 3] if len(profile) > 1 else None
    text = pp.text()
    lines = ["names_off();" if is_spawn and not is_async else "", pp.decls()]
    if is_async:
        lines.append("let mut fut = %s;" % text)
        lines.append("let (r, polls, lost) = drive(&mut fut, %d);" % pp.max_polls())
        lines.append("vassert!(r == Some(%s), \"C04[%s]: element i of the result is branch i's final value (async)\");" % (pp.expected_success(), pid))
    else:
        lines.append("let r = %s;" % text)
        lines.append("vassert!(r == %s, \"C04[%s]: element i of the result is branch i's final value; handler arguments in branch order\");" % (pp.expected_success(), pid))
    if handler:
        lines.append("vassert!(cnt(%d) == 1, \"C04[%s]: handler ran once\");" % (H_EV, pid))
    lines.append("vcover!(true, \"end reached\");")
    body = "\n    ".join("    " + l if i == 0 else l for i, l in enumerate(l for l in lines if l))
    desc = dict(macro=macro, profile=list(profile), carrier=carrier, handler=handler, lets={str(k): v for k, v in lets.items()},
                symbolic=["payload at each of the %d (branch, step) positions" % sum(profile)] + (["early/late bit per thread"] if is_spawn and not is_async else []) + (["pending count per gate"] if gates else []))
    return Program(pid, text, body, desc=desc, group=macro, role=dict(kind=macro), heavy=heavy, solo=is_async and max(profile) > 1,
                   unwind=64 if not is_async else max(12, pp.max_polls() + 3))


def programs(tier, seed):
    ps = []
    i = 0
    profs = profiles(3, 3) if tier == "quick" else profiles(4, 3)
    for macro in ("join", "try_join", "join_spawn", "try_join_spawn"):
        for prof in profs:
            if tier == "quick" and KINDS[macro][2] and len(prof) == 3 and sum(prof) > 7:
                continue
            i += 1
            ps.append(make("p%04d" % i, macro, prof, i, seed))
    if tier == "quick":
        aprofs = {"join_async": [(1,), (1, 1, 1), (2, 1), (1, 2, 1)], "try_join_async": [(1, 1), (1, 2), (2, 1, 1), (2, 1, 2)],
                  "join_async_spawn": [(1, 1), (2, 1), (1, 2, 2)], "try_join_async_spawn": [(1, 1), (2, 1, 2)]}
        gates = None
    else:
        aprofs = {"join_async": profiles(3, 2), "try_join_async": profiles(3, 2),
                  "join_async_spawn": profiles(2, 2), "try_join_async_spawn": profiles(2, 2)}
        gates = None
    for macro, profs in aprofs.items():
        for prof in profs:
            i += 1
            ps.append(make("p%04d" % i, macro, prof, i, seed, gates=gates, heavy=False))
    # wide-handler family: >= 4 branches with a (non-symmetric: reversing) handler in every kind - a handler argument order that
    # differs from branch order only beyond three branches, or only in one kind, is a counterexample here
    wide = {"join": [(1, 1, 1, 1), (2, 1, 2, 1), (1, 1, 1, 1, 1)], "try_join": [(1, 1, 1, 1), (1, 2, 1, 2), (1, 1, 1, 1, 1)],
            "join_spawn": [(1, 1, 1, 1), (1, 2, 1, 1), (1, 1, 1, 1, 1)], "try_join_spawn": [(1, 1, 1, 1), (2, 1, 2, 1), (1, 1, 1, 1, 1)],
            "join_async": [(1, 1, 1, 1)], "try_join_async": [(1, 1, 1, 1)], "join_async_spawn": [(1, 1, 1, 1)], "try_join_async_spawn": [(1, 1, 1, 1)]}
    for macro, profs in wide.items():
        for prof in profs:
            i += 1
            ps.append(make("p%04d" % i, macro, prof, i, seed, force_handler=True))
    return ps


def generate(tier, seed):
    return pack("c04", programs(tier, seed), 8)


META = dict(
    level="model_checking",
    rule="one program per (macro kind, depth profile); carrier, handler (every third program, written first/second/last; plus the wide-handler family: 4 and 5 branches with a handler in all eight kinds), `let` subset and step operators vary with "
         "index and seed; packed 8 programs per Kani query; non-trivial = passed with its end-reached witness; distinct = distinct macro invocation texts",
    functions_encoded=["expansions of join!, try_join!, join_spawn!, try_join_spawn!, join_async!, try_join_async!, join_async_spawn!, try_join_async_spawn! "
                       "(JoinOutput::extract_results_tuple, generate_indexed_step_results_name, generate_results_transposer, generate_handle)"],
    bounds=["branches <= 3 (quick) / 4 (thorough), steps <= 3; wide-handler family: 4 and 5 branches, steps <= 2", "async: <= 3 branches x <= 2 steps, gates always ready", "payloads u8, every position succeeds (failures: C05)"],
    outside=["more branches/steps", "branches of different types (a swap would not type-check)"],
    assumptions=["thread and tokio models of DESIGN.md 2.2", "format! model returns an empty string (names are not observed here)"],
)
