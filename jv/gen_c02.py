"""C02 - nested combinators: `X >>> inner.. <<< rest` == `.x(|v| v inner..) rest` (translation validation).

For each of the ten wrapper-capable operators, input types whose closure argument admits a non-trivial inner
chain, nesting depth 1-3, inner chains (empty / one / two operators / with a block capture), closing styles
(explicit `<<<` followed by outer operators, implicit at the end of the branch, implicit at a `~` step boundary
followed by outer operators); every third program opens the wrapper with a deferred (`~`) operator.
"""
from .driver import Program, pack
from .dsl import *
from .gen_c01 import build, weight_of
from .profiles import rng, KINDS


def ref_ty(t):
    return "&" + ty(t)


def inner_for(ctx, argt, need, depth, kind, outer_t):
    """inner chain on the wrapper closure's argument; returns (chain, result type) or None"""
    r = ctx.rnd
    isref = argt[0] == "ref"
    base = argt[1] if isref else argt
    chain = []
    if need == "bool":
        if base[0] == "opt" and r.random() < 0.5:
            m = r.choice(["is_some()", "is_none()"])
            chain.append(Step("..", ".. " + m, (lambda m: lambda b: "%s.%s" % (b, m))(m), BOOL))
        else:
            c, i = cl(ctx, "v: &%s" % ty(base), "v.obs() > %s" % ctx.k(), "v.obs()")
            chain.append(Step("->", "-> " + c, (lambda c: lambda b: "(%s)(%s)" % (c, b))(c), BOOL, ids=[i]))
        return chain, BOOL
    if need == "unit":
        c, i = cl(ctx, "v: &%s" % ty(base), "", "v.obs()")
        chain.append(Step("->", "-> " + c, (lambda c: lambda b: "(%s)(%s)" % (c, b))(c), UNIT, ids=[i]))
        return chain, UNIT
    if need == "u8":   # map_err: e -> e'
        if r.random() < 0.5:
            k = ctx.k()
            chain.append(Step("..", ".. wrapping_add(%s)" % k, (lambda k: lambda b: "%s.wrapping_add(%s)" % (b, k))(k), U8))
        else:
            c, i = cl(ctx, "e: u8", "e ^ %s" % ctx.k(), "e")
            chain.append(Step("->", "-> " + c, (lambda c: lambda b: "(%s)(%s)" % (c, b))(c), U8, ids=[i]))
        if kind == "two":
            c, i = cl(ctx, "e: u8", "e.wrapping_mul(3)", "e")
            chain.append(Step("->", "-> " + c, (lambda c: lambda b: "(%s)(%s)" % (c, b))(c), U8, ids=[i]))
        return chain, U8
    if need == "res_same":   # or_else on Result<x, u8>: e -> Result<x, u8>
        v = ctx.value(outer_t)
        c, i = cl(ctx, "e: u8", "if e > %s { %s } else { Err(e ^ 5) }" % (ctx.k(), v), "e")
        chain.append(Step("->", "-> " + c, (lambda c: lambda b: "(%s)(%s)" % (c, b))(c), outer_t, ids=[i]))
        if kind == "two":
            st = op_map_err(ctx, outer_t)
            chain.append(st)
        return chain, outer_t
    # value-level argument: need in ('any', 'opt', 'res')
    cur = base
    n_ops = {"empty": 0, "one": 1, "two": 2, "capture": 1}[kind]
    if depth > 1 and cur[0] in ("opt", "res", "it"):
        w = make_wrapper(ctx, cur, depth - 1, r.choice(["one", "two"]), explicit=True)
        if w is not None:
            chain.append(w)
            cur = w.out
            n_ops = max(0, n_ops - 1)
    for _ in range(n_ops):
        allowed = ["|>", "=>", "?>", "<|", "!>", "..", "??", "^^>"] if cur[0] in ("opt", "res") else (["->", ".."] if cur[0] != "it" else ["|>", "?>", "?|>", "|n>"])
        sub, cur2 = random_chain(ctx, cur, 1, allowed=allowed)
        if not sub:
            break
        chain += sub
        cur = cur2
    if kind == "capture":
        # an operand written as a block: evaluated before the step, its value used inside the wrapper closure
        k = ctx.k()
        if cur[0] in ("opt", "res", "it"):
            c, out, i = map_fn(ctx, cur[1])
            blk = "{ let kk = %s; move |v: %s| { call(%d, v.obs()); v.obs() ^ kk } }" % (k, ty(cur[1]), i)
            chain.append(Step("|>", "|> " + blk, (lambda blk: lambda b: "%s.map(%s)" % (b, blk))(blk), (cur[0], U8), ids=[i]))
            cur = (cur[0], U8)
        elif not has_iter(cur):
            i = ctx.cid()
            blk = "{ let kk = %s; move |v: %s| { call(%d, v.obs()); mo(v.obs() > kk, v.obs()) } }" % (k, ty(cur), i)
            chain.append(Step("->", "-> " + blk, (lambda blk: lambda b: "(%s)(%s)" % (blk, b))(blk), OPT(U8), ids=[i]))
            cur = OPT(U8)
    # fix up the required result kind
    if need in ("opt", "res"):
        if cur[0] != need:
            if has_iter(cur):
                st = (op_find_map if need == "opt" else op_try_fold)(ctx, cur)
                if st is None or st.out[0] != need:
                    return None
            else:
                f = "mo" if need == "opt" else "mk"
                c, i = cl(ctx, "v: %s" % ty(cur), "%s(v.obs() > %s, v.obs())" % (f, ctx.k()), "v.obs()")
                st = Step("->", "-> " + c, (lambda c: lambda b: "(%s)(%s)" % (c, b))(c), (need, U8), ids=[i])
            chain.append(st)
            cur = st.out
    return chain, cur


def make_wrapper(ctx, t, depth, kind, explicit, want=None):
    specs = wrapper_specs(t)
    if want:
        specs = [s for s in specs if s[0] == want]
    ctx.rnd.shuffle(specs)
    for tok, method, argt, need, outf in specs:
        got = inner_for(ctx, argt, need, depth, kind, t)
        if got is None:
            continue
        inner, rt = got
        if tok == "?&!>":
            # partition needs its collection types from context: always followed by a typed call
            it = t[1]
            pt = "(Vec<%s>, Vec<%s>)" % (ty(it), ty(it))
            c2, i2 = cl(ctx, "v: %s" % pt, "v", "v.0.obs() ^ v.1.obs()")
            inner_ref = (lambda inner: lambda w: render_ref(inner, w))(inner)
            st = Step(tok, None, (lambda inner, c2: lambda b: "(%s)(%s.partition(|w| %s))" % (c2, b, render_ref(inner, "w")))(inner, c2),
                      PAIR(VEC(it), VEC(it)), inner=inner, explicit_close=True, ids=[i2])
            st.after = "-> " + c2
            return st
        if need == "any":
            out = outf(rt)
        elif need in ("opt", "res") and tok != "=>":
            out = outf(rt)
        elif tok == "=>":
            out = rt
        else:
            out = outf(rt)
        if tok == "??":
            # sync `??`: the callback sees the value by reference, the value passes through unchanged
            reff = (lambda inner: lambda b: "{ let x = %s; (|w| %s)(&x); x }" % (b, render_ref(inner, "w")))(inner)
        else:
            reff = (lambda inner, method: lambda b: "%s.%s(|w| %s)" % (b, method, render_ref(inner, "w")))(inner, method)
        st = Step(tok, None, reff, out, inner=inner, explicit_close=explicit)
        st.has_capture = kind == "capture"
        return st
    return None


def render_mac2(chain):
    """like dsl.render_mac but knows about the typed call that follows a partition wrapper"""
    parts = []
    for st in chain:
        pre = "~" if st.deferred else ""
        if st.inner is not None:
            parts.append("%s%s >>> %s%s" % (pre, st.op, render_mac2(st.inner), " <<<" if st.explicit_close else ""))
            if getattr(st, "after", None):
                parts.append(st.after)
        else:
            parts.append(pre + st.mac)
    return " ".join(p for p in parts if p)


WRAPPER_INPUTS = {
    "|>": [OPT(OPT(U8)), RES(OPT(U8)), IT(OPT(U8)), OPT(OPT(OPT(U8))), OPT(RES(U8))],
    "=>": [OPT(OPT(U8)), RES(RES(U8)), OPT(OPT(OPT(U8))), RES(RES(RES(U8)))],
    "?>": [OPT(OPT(U8)), IT(OPT(U8)), IT(U8), OPT(U8)],
    "??": [OPT(U8), RES(OPT(U8)), PAIR(U8, U8)],
    "?|>": [IT(OPT(U8)), IT(U8)],
    "?@": [IT(OPT(U8)), IT(U8)],
    "?|>@": [IT(OPT(U8)), IT(PAIR(U8, U8))],
    "?&!>": [IT(OPT(U8)), IT(U8)],
    "<=": [RES(U8), RES(OPT(U8))],
    "!>": [RES(U8), RES(OPT(U8))],
}


def programs(tier, seed):
    import dataclasses  # noqa: F401
    from . import dsl
    ps = []
    i = 0
    closings = ["explicit_then_outer", "implicit_end", "implicit_step_then_outer"]
    kinds = ["empty", "one", "two", "capture"]
    for tok, inputs in WRAPPER_INPUTS.items():
        for t in inputs:
            for depth in (1, 2, 3):
                if depth > 1 and t[1][0] not in ("opt", "res"):
                    continue
                if depth == 3 and not (t[1][0] in ("opt", "res") and t[1][1][0] in ("opt", "res")):
                    continue
                for kind in kinds:
                    for closing in closings:
                        i += 1
                        if tier == "quick" and (i * 7 + seed) % 3 != 0 and not (depth == 1 and kind == "one" and closing == "explicit_then_outer"):
                            continue
                        pid = "p%04d" % i
                        ctx = Ctx(rng(seed, pid), itlen=3 if (tier == "thorough" and depth == 1 and kind in ("empty", "one")) else 2)
                        inp = ctx.value(t)
                        w = make_wrapper(ctx, t, depth, kind, explicit=(closing == "explicit_then_outer"), want=tok)
                        if w is None:
                            continue
                        chain = [w]
                        # every third program opens its wrapper with a DEFERRED operator (`~X >>> .. <<< rest`): the wrapper then
                        # lives in a later step, and what follows `<<<` must still apply to the outer value
                        if i % 3 == 1:
                            w.deferred = True
                        if closing != "implicit_end":
                            allowed = None
                            outer, out = random_chain(ctx, w.out, 1 if kind != "two" else 2)
                            if closing == "implicit_step_then_outer":
                                if not outer:
                                    continue
                                outer[0].deferred = True
                            chain += outer
                        else:
                            out = w.out
                        final_t = chain[-1].out
                        if kind == "capture" and t[0] == "it" and has_iter(final_t):
                            # a hoisted block is a local of the macro's block: a lazy iterator whose wrapper closure uses it
                            # cannot leave the macro (that is the documented hoisting, not a defect) - consume it inside
                            st = (op_fold if i % 2 else op_dot)(ctx, final_t)
                            while st is not None and has_iter(st.out):
                                st = op_fold(ctx, final_t)
                            if st is None:
                                continue
                            if not w.explicit_close:
                                st.deferred = True
                            chain.append(st)
                            final_t = st.out
                        macro = ["join", "join", "try_join", "join_spawn"][i % 4]
                        if KINDS[macro][1] and (final_t[0] not in ("opt", "res") or any(st.deferred for st in chain)):
                            # try macros stop at a step boundary when the value is None/Err (C06), so the plain method
                            # chain is the oracle only for single-step programs
                            macro = "join"
                        if macro == "join_spawn" and t[0] == "it":
                            # a lazy iterator returned from a thread must not borrow from the thread's closure; the macro's
                            # wrapper closures are not `move`, so such programs are ill-typed by the documented semantics
                            macro = "join"
                        # the macro text is rendered with render_mac2 (partition's typed call)
                        saved = dsl.render_mac
                        try:
                            import jv.gen_c01 as g1
                            g1.render_mac = render_mac2
                            # (a single-branch spawn macro spawns nothing: make the wrapper branch the second of two)
                            prog = build(pid, macro, ctx, inp, chain, final_t, group="wrap %s" % tok, second_branch=(macro == "join_spawn"),
                                         extra_desc=dict(wrapper=tok, depth=depth, inner=kind, closing=closing, wrapper_deferred=w.deferred))
                        finally:
                            g1.render_mac = saved
                        prog.role = dict(kind=macro, wrapper=tok)
                        ps.append(prog)
    if tier == "quick":
        ps = [p for p in ps if p.weight <= 14]
    else:
        # (a Vec of symbolic length after two length-changing steps does not fit the 12 GB cap: measured)
        ps = [p for p in ps if p.weight <= 40]
    return ps


def generate(tier, seed):
    return pack("c02", programs(tier, seed), 8)


META = dict(
    level="translation_validation",
    rule="programs: wrapper operator x input type x nesting depth 1-3 x inner chain (empty / one / two operators / with block capture) x closing style (explicit <<< then outer operators, "
         "implicit at end of branch, implicit at a ~ step boundary then outer operators); quick tier keeps one third (seed-rotated) plus every (operator, type) at depth 1; each compared with "
         "the hand-nested method chain on symbolic inputs incl. callback traces; packed 8 per query; disagreements_checked = programs discharged",
    functions_encoded=["expansions with >>> / <<< (parse_until wrapper detection, ActionGroup::to_wrapper_action_expr, JoinOutput::process_step_action_expr, wrap_last_step_stream, leftovers closed at step end)"],
    bounds=["nesting depth <= 3", "inner chain <= 2 operators", "iterators of 2 elements (thorough: 3 for depth-1 wrappers with at most one inner operator)", "macros join!, try_join!, join_spawn!"],
    outside=["`~` inside an open wrapper", "rejection cases (`>>>` on non-wrapper operators, `>>>` + `<<<`): see DESIGN.md 4"],
    assumptions=["reference renderings of DESIGN.md Appendix A", "thread model for join_spawn!"],
)
