"""C12 - `let` names expose each branch's latest step result to later captures and do not change the result.

(i)  result with names == closed-form result (the same oracle as without names);
(ii) a block capture in step s >= 1 of branch b snapshots `name_j` (copying the payload out of the still wrapped
     Option/Result in try macros) and the monitor compares it with V(j, min(s, d_j) - 1): branch j's value after its
     most recent step, also when j finished earlier.
"""
from .driver import Program, pack
from .pp import *


def make(pid, macro, profile, named, idx, seed, gates=None, heavy=False):
    r = rng(seed, pid)
    is_async, is_try, is_spawn = KINDS[macro]
    if is_try:
        carrier = "res" if (is_async or idx % 2 == 0) else "opt"
    else:
        carrier = ["raw", "opt"][idx % 2]
    lets = {b: ("let mut" if (idx + b) % 2 else "let") for b in named}
    styles, captures, snapshot = {}, set(), {}
    k = 0
    for b, d in enumerate(profile):
        for s in range(1, d):
            if carrier != "raw" and not is_async:
                styles[(b, s)] = ["and_then", "map", "then"][(idx + b + s) % 3]
            if is_async:
                styles[(b, s)] = "amap"
            if named:
                j = sorted(named)[(k + idx) % len(named)]
                k += 1
                captures.add((b, s))
                snapshot[(b, s)] = j
    pp = PP(macro, profile, carrier=carrier, can_fail=False, lets=lets, styles=styles, captures=captures, snapshot=snapshot, gates=gates)
    pp.gate_steps = {0}
    pp.mutate_names = not is_async and not KINDS[macro][2]     # (a spawn macro's capture runs on the caller too, but keep the thread kinds as they are)
    text = pp.text()
    L = ["names_off();" if is_spawn and not is_async else "", pp.decls()]
    if is_async:
        L.append("let mut fut = %s;" % text)
        L.append("let (r, polls, lost) = drive(&mut fut, %d);" % pp.max_polls())
        L.append("vassert!(r == Some(%s), \"C12[%s]: `let` names do not change the result (async)\");" % (pp.expected_success(), pid))
    else:
        L.append("let r = %s;" % text)
        L.append("vassert!(r == %s, \"C12[%s]: `let` names do not change the result\");" % (pp.expected_success(), pid))
    for (b, s), j in sorted(snapshot.items()):
        sj = min(s, profile[j]) - 1
        L.append("vassert!(cnt(%d) == 1 && arg(%d) == %s, \"C12[%s]: a capture in step s sees the named branch's most recent step result\");" % (CAP(b, s), CAP(b, s), val(j, sj), pid))
    L.append("vcover!(true, \"end reached\");")
    body = "\n    ".join(l for l in L if l)
    desc = dict(macro=macro, profile=list(profile), carrier=carrier, named=sorted(named), snapshots={"%d,%d" % k_: v for k_, v in snapshot.items()},
                symbolic=["payload at each position"] + (["early/late bit per thread"] if is_spawn and not is_async else []))
    return Program(pid, text, "    " + body, desc=desc, group=macro, role=dict(kind=macro), heavy=heavy, solo=is_async,
                   unwind=64 if not is_async else max(12, pp.max_polls() + 3))


def make_in_wrapper(pid, macro, variant):
    """a `let` name read by a block capture that stands INSIDE a `>>>` wrapper of a later step (block captures inside wrappers are hoisted in front of
    their step like all others), also after the named branch has finished, and a name read by the capture of a THIRD step"""
    is_async, is_try, is_spawn = KINDS[macro]
    msg = lambda t: "\"C12[%s]: %s\"" % (pid, t)
    w = (lambda x: "mo(true, %s)" % x) if is_try else (lambda x: "Some(%s)" % x)
    rd = (lambda nm: "match %s { Some(x) => x, None => 0 }" % nm)
    L = ["names_off();" if is_spawn else "", "let p0 = u(); let p1 = u(); let q = u(); let q2 = u();"]
    if variant == "finished":
        # branch 0 (named) has one step; branch 1 reads the name inside a wrapper in step 1 and again in step 2
        text = ("%s! { let nm0 = %s, %s ~|> >>> -> { eva(101, %s); move |v: u8| v ^ q } <<< ~|> { eva(102, %s); move |v: u8| v ^ q2 } }"
                % (macro, w("p0"), w("p1"), rd("nm0"), rd("nm0")))
        exp_vals = ("p0", "p1 ^ q ^ q2")
        snaps = [(101, "p0"), (102, "p0")]
    else:
        # both named; branch 0 reads branch 1's name inside a two-deep wrapper in step 1, branch 1 reads branch 0's step-1 value in step 2
        text = ("%s! { let nm0 = %s ~|> >>> -> { eva(101, %s); move |v: u8| v ^ q } <<<, let mut nm1 = %s ~|> move |v: u8| v ^ q2 ~|> { eva(102, %s); move |v: u8| v } }"
                % (macro, w("p0"), rd("nm1"), w("p1"), rd("nm0")))
        exp_vals = ("p0 ^ q", "p1 ^ q2")
        snaps = [(101, "p1"), (102, "p0 ^ q")]
    L.append("let r = %s;" % text)
    tup = "(%s, %s)" % exp_vals
    L.append("vassert!(r == %s, %s);" % ("Some(%s)" % tup if is_try else "(Some(%s), Some(%s))" % exp_vals, msg("`let` names do not change the result")))
    for ev_, val_ in snaps:
        L.append("vassert!(cnt(%d) == 1 && arg(%d) == %s, %s);" % (ev_, ev_, val_, msg("a capture inside a wrapper / in a later step sees the named branch's most recent step result")))
    L.append("vcover!(true, \"end reached\");")
    return Program(pid, text, "    " + "\n    ".join(l for l in L if l), desc=dict(macro=macro, variant=variant, capture="inside a `>>>` wrapper"), group="in-wrapper/" + macro, role=dict(kind=macro), unwind=64, weight=2)


def subsets(nb, tier, r):
    full = [set(c) for k in range(1, nb + 1) for c in __import__("itertools").combinations(range(nb), k)]
    if tier == "thorough" or nb <= 2:
        return full
    r.shuffle(full)
    return full[:2]


def programs(tier, seed):
    ps = []
    i = 0
    r = rng(seed, "c12")
    profs = [pr for pr in profiles(3, 3) if max(pr) >= 2]
    for macro in ("join", "try_join", "join_spawn", "try_join_spawn"):
        for prof in profs:
            if tier == "quick" and KINDS[macro][2] and (len(prof) == 1 or sum(prof) > 6):
                continue
            for named in subsets(len(prof), tier, r):
                i += 1
                ps.append(make("p%04d" % i, macro, prof, named, i, seed))
    aprofs = [("join_async", (2, 2), {0, 1}), ("try_join_async", (1, 2), {0}), ("try_join_async", (2, 2), {1}),
              ("join_async", (3,), {0}), ("try_join_async", (2,), {0}), ("join_async_spawn", (2, 1), {1})]
    if tier == "thorough":
        aprofs += [("join_async", (1, 2), {0, 1}), ("join_async", (2, 2, 1), {2}), ("join_async_spawn", (2, 2), {0}), ("try_join_async_spawn", (1, 2), {0, 1})]
    for macro, prof, named in aprofs:
        i += 1
        ps.append(make("p%04d" % i, macro, prof, named, i, seed, gates=1 if tier == "thorough" else None))
    i = 900
    for macro in ("join", "try_join", "join_spawn", "try_join_spawn"):
        for variant in ("finished", "both"):
            i += 1
            if tier == "quick" and KINDS[macro][2] and (i + seed) % 2:
                continue
            ps.append(make_in_wrapper("p%04d" % i, macro, variant))
    return ps


def generate(tier, seed):
    return pack("c12", programs(tier, seed), 8)


META = dict(
    level="model_checking",
    rule="one program per (macro kind, depth profile with >= 2 steps, subset of named branches: all subsets for <= 2 branches, 2 seed-chosen (quick) / all (thorough) for 3); "
         "every later position is a block capture snapshotting one of the names (round-robin); packed 8 per query; non-trivial = passed; distinct = distinct invocation texts",
    functions_encoded=["expansions of join!, try_join!, join_spawn!, try_join_spawn!, join_async!, try_join_async! (+ spawn async kinds thorough): "
                       "ActionExprChainBuilder let-pattern extraction, JoinOutput::branch_result_pat / branch_result_name, per-step destructuring"],
    bounds=["branches <= 3, steps <= 3", "async: profiles listed in gen_c12.py"],
    outside=["non-identifier `let` patterns (rejected at parse time, see C15)", "names read from callbacks instead of block captures"],
    assumptions=["thread and tokio models of DESIGN.md 2.2", "format! model returns an empty string"],
)
