"""C17 - internal names never clash; macros nest freely (translation validation against closed forms).

(a) wide programs: N branches x M instant actions in one step (12 x 12 quick, 24 x 24 thorough), block captures at
    (branch, position) pairs whose decimal concatenations collide (1/11 vs 11/1, 2/12 vs 21/2, 1/1+2 ...) and on both
    fold operands, each capture holding its own symbolic constant;
(b) two-digit step counts (12 steps x 2 branches); a dense program in which every operand of every position is a block
    (Process and Err operators mixed);
(c) nesting: every ordered pair of the 12 macro names with the inner macro in an operand, in a block capture and in a
    handler (async inside sync through one poll); seed-sampled triples at depth 3;
(d) user identifiers spelled like internal ones inside closures.
"""
from .driver import Program, pack
from .profiles import rng, KINDS

NAMES = list(KINDS)


def const(b, k):
    return (b * 17 + k * 29 + 3) % 251


def wide(pid, nb, na, seed):
    r = rng(seed, pid)
    collide = {(1, 11), (11, 1), (2, 12), (21, 2), (1, 1), (1, 2), (11, 2), (1, 12), (12, 1), (2, 1), (10, 1), (1, 10), (0, 11), (0, 1), (10, 10), (1, 0)}
    caps = {(b, k) for (b, k) in collide if b < nb and 1 <= k <= na}
    L = ["let x = u();"]
    ck = {}
    for (b, k) in sorted(caps):
        ck[(b, k)] = "c%d_%d" % (b, k)
        L.append("let %s = u();" % ck[(b, k)])
    brs = []
    exp = []
    for b in range(nb):
        parts = ["x ^ %du8" % b]
        e = "x ^ %du8" % b
        for k in range(1, na + 1):
            if (b, k) in caps:
                parts.append("-> { let c = %s; move |v: u8| v ^ c }" % ck[(b, k)])
                e += " ^ %s" % ck[(b, k)]
            else:
                parts.append("-> move |v: u8| v ^ %du8" % const(b, k))
                e += " ^ %du8" % const(b, k)
        brs.append(" ".join(parts))
        exp.append(e)
    # a fold with both operands as blocks in two branches whose indices collide textually
    L.append("let fa = u(); let fb = u(); let i0 = u(); let i1 = u();")
    brs.append("[x, fa].into_iter() ^@ { i0 }, { let c = fa; move |a: u8, v: u8| a ^ v ^ c }")
    exp.append("i0 ^ x ^ fa ^ fa ^ fa")
    brs.append("[x, fb].into_iter() -> move |v| v ^@ { i1 }, { let c = fb; move |a: u8, v: u8| a ^ v ^ c }")
    exp.append("i1 ^ x ^ fb ^ fb ^ fb")
    text = "join! {\n        %s\n    }" % ",\n        ".join(brs)
    L.append("let r = %s;" % text)
    for b in range(len(brs)):
        L.append("vassert!(r.%d == %s, \"C17[%s]: element %d of a %d x %d program is its own branch's value (no internal name clash)\");" % (b, exp[b], pid, b, nb, na))
    L.append("vcover!(true, \"end reached\");")
    return Program(pid, "join! with %d branches x %d instant actions, block captures at %s, block fold operands" % (nb, na, sorted(caps)), "    " + "\n    ".join(L),
                   desc=dict(branches=nb + 2, actions=na, captures=sorted(caps)), group="wide", role=dict(kind="join"), solo=True, unwind=12, weight=10, heavy=nb > 12)


def dense(pid, nb, na, seed):
    """nb branches x na positions over symbolic Options; EVERY operand (and every initial value) is a block holding its
    own symbolic constant, operators rotate over |> => ?> <| <= ->, so a binding name that depends on the wrong
    (branch, position, operand) triple - also for the error-side operators - picks up another block's value"""
    L = []
    brs, exp = [], []
    for b in range(nb):
        L.append("let f%d = b(); let x%d = u();" % (b, b))
        parts = ["{ mo(f%d, x%d) }" % (b, b)]
        e = "mo(f%d, x%d)" % (b, b)
        for k in range(1, na + 1):
            c = "c%d_%d" % (b, k)
            g = "g%d_%d" % (b, k)
            L.append("let %s = u(); let %s = b();" % (c, g))
            kind = (b + k) % 6
            if kind == 0:
                parts.append("|> { let c = %s; move |v: u8| v ^ c }" % c)
                e = "%s.map(|v| v ^ %s)" % (e, c)
            elif kind == 1:
                parts.append("<| { mo(%s, %s) }" % (g, c))
                e = "%s.or(mo(%s, %s))" % (e, g, c)
            elif kind == 2:
                parts.append("=> { let c = %s; move |v: u8| mo(v > c, v ^ 1) }" % c)
                e = "%s.and_then(|v| mo(v > %s, v ^ 1))" % (e, c)
            elif kind == 3:
                parts.append("<= { let c = %s; let g = %s; move || mo(g, c) }" % (c, g))
                e = "%s.or_else(|| mo(%s, %s))" % (e, g, c)
            elif kind == 4:
                parts.append("?> { let c = %s; move |v: &u8| *v != c }" % c)
                e = "%s.filter(|v| *v != %s)" % (e, c)
            else:
                parts.append("-> { let c = %s; move |r: Option<u8>| r.map(|v| v.wrapping_add(c)) }" % c)
                e = "%s.map(|v| v.wrapping_add(%s))" % (e, c)
        brs.append(" ".join(parts))
        exp.append(e)
    text = "join! {\n        %s\n    }" % ",\n        ".join(brs)
    L.append("let r = %s;" % text)
    for b in range(nb):
        L.append("vassert!(r.%d == %s, \"C17[%s]: element %d of the dense block program is its own branch's value (every operand is a block)\");" % (b, exp[b], pid, b))
    L.append("vcover!(true, \"end reached\");")
    return Program(pid, text, "    " + "\n    ".join(L), desc=dict(branches=nb, positions=na, all_operands_are_blocks=True), group="dense", role=dict(kind="join"), solo=True, unwind=12, weight=8)


def deep(pid, steps, seed):
    L = ["let x = u(); let y = u();"]
    b0 = ["x"] + ["~-> move |v: u8| v ^ %du8" % const(0, s) for s in range(1, steps)]
    b1 = ["y"] + ["~-> { let c = %du8; move |v: u8| v ^ c }" % const(1, s) for s in range(1, steps)]
    text = "join! {\n        %s,\n        %s\n    }" % (" ".join(b0), " ".join(b1))
    e0 = " ^ ".join(["x"] + ["%du8" % const(0, s) for s in range(1, steps)])
    e1 = " ^ ".join(["y"] + ["%du8" % const(1, s) for s in range(1, steps)])
    L.append("let r = %s;" % text)
    L.append("vassert!(r == (%s, %s), \"C17[%s]: %d steps (two-digit step indices)\");" % (e0, e1, pid, steps))
    L.append("vcover!(true, \"end reached\");")
    return Program(pid, text, "    " + "\n    ".join(L), desc=dict(steps=steps), group="deep", role=dict(kind="join"), solo=True, unwind=12, weight=4)


# ---- nesting ------------------------------------------------------------------------------------------------------
def deep_async(pid, macro, steps, nb):
    """two-digit step numbers in the async expansions: `steps` steps over always-ready futures, one poll must complete with the closed form"""
    is_try = macro.startswith("try")
    L = ["let x = u(); let y = u();"]
    ini = (lambda v: "ready(mk(true, %s))" % v) if is_try else (lambda v: "ready(%s)" % v)
    cb = (lambda c: "move |r: Result<u8, u8>| r.map(|v| v ^ %du8)" % c) if is_try else (lambda c: "move |v: u8| v ^ %du8" % c)
    b0 = [ini("x")] + ["~|> %s" % cb(const(0, s)) for s in range(1, steps)]
    b1 = [ini("y")] + ["~|> { let keep = %du8; %s }" % (const(1, s), cb(const(1, s)).replace("%du8" % const(1, s), "keep")) for s in range(1, steps)]
    brs = [" ".join(b0), " ".join(b1)][:nb]
    text = "%s! {\n        %s\n    }" % (macro, ",\n        ".join(brs))
    e0 = " ^ ".join(["x"] + ["%du8" % const(0, s) for s in range(1, steps)])
    e1 = " ^ ".join(["y"] + ["%du8" % const(1, s) for s in range(1, steps)])
    tup = "(%s, %s)" % (e0, e1) if nb == 2 else "(%s)" % e0
    L.append("let mut fut = %s;" % text)
    L.append("let r = poll_once(&mut fut);")
    L.append("vassert!(r == Poll::Ready(%s), \"C17[%s]: %d steps in an async macro (two-digit step indices): one poll over ready futures completes with the closed form\");" % ("Ok(%s)" % tup if is_try else tup, pid, steps))
    L.append("vcover!(true, \"end reached\");")
    return Program(pid, text, "    " + "\n    ".join(L), desc=dict(macro=macro, steps=steps, branches=nb), group="deep-async", role=dict(kind=macro), solo=True, unwind=12, weight=6, heavy=nb > 1)


def inner_value(name, a, b, depth_inner=None):
    """expression of type u8 computed by an inner macro `name` over two branches (values a, b); == a ^ b ^ 1"""
    is_async, is_try, is_spawn = KINDS[name]
    extra = depth_inner or "1u8"
    if not is_async and not is_try:
        return "{ let t = %s! { %s, %s -> move |q: u8| q ^ %s }; t.0 ^ t.1 }" % (name, a, b, extra)
    if not is_async and is_try:
        return "%s! { mo(true, %s), mo(true, %s) |> move |q: u8| q ^ %s }.map(|t| t.0 ^ t.1).unwrap_or(0)" % (name, a, b, extra)
    if is_async and not is_try:
        return "match poll_once(&mut %s! { ready(%s), ready(%s) |> move |q: u8| q ^ %s }) { Poll::Ready(t) => t.0 ^ t.1, _ => 0 }" % (name, a, b, extra)
    return "match poll_once(&mut %s! { ready(mk(true, %s)), ready(mk(true, %s)) |> move |q: Result<u8, u8>| q.map(|q| q ^ %s) }) { Poll::Ready(Ok(t)) => t.0 ^ t.1, _ => 0 }" % (name, a, b, extra)


def nest(pid, outer, inner, where, seed, third=None):
    is_async, is_try, is_spawn = KINDS[outer]
    L = ["names_off();", "let k0 = u(); let k1 = u(); let k2 = u(); let k3 = u();"]
    iv = inner_value(inner, "k2", "k3", depth_inner=("(%s)" % inner_value(third, "k0", "k1")) if third else None)
    exp_inner = "k2 ^ k3 ^ 1u8" if not third else "k2 ^ k3 ^ (k0 ^ k1 ^ 1u8)"
    # outer program: two branches over k0, k1; the inner value is xor-ed into branch 0 (operand / capture) or into the handler's value
    if where == "operand":
        f_raw = "move |v: u8| v ^ (%s)" % iv
        f_res = "move |r: Result<u8, u8>| r.map(|v| v ^ (%s))" % iv
    elif where == "capture":
        f_raw = "{ let c = %s; move |v: u8| v ^ c }" % iv
        f_res = "{ let c = %s; move |r: Result<u8, u8>| r.map(|v| v ^ c) }" % iv
    else:
        f_raw = f_res = None
    handler = ""
    if where == "handler":
        if is_try:
            handler = ", map => move |a: u8, b: u8| a ^ b ^ (%s)" % iv
        elif is_async:
            handler = ", then => move |a: u8, b: u8| async move { a ^ b ^ (%s) }" % iv
        else:
            handler = ", then => move |a: u8, b: u8| a ^ b ^ (%s)" % iv
    if not is_async and not is_try:
        b0 = "k0 -> %s" % f_raw if f_raw else "k0"
        text = "%s! { %s, k1%s }" % (outer, b0, handler)
        L.append("let r = %s;" % text)
        expect = "k0 ^ k1 ^ (%s)" % exp_inner if where == "handler" else "(k0 ^ (%s), k1)" % exp_inner
    elif not is_async and is_try:
        b0 = "mo(true, k0) |> %s" % f_raw if f_raw else "mo(true, k0)"
        text = "%s! { %s, mo(true, k1)%s }" % (outer, b0, handler)
        L.append("let r = %s;" % text)
        expect = "Some(k0 ^ k1 ^ (%s))" % exp_inner if where == "handler" else "Some((k0 ^ (%s), k1))" % exp_inner
    elif is_async and not is_try:
        b0 = "ready(k0) |> %s" % f_raw if f_raw else "ready(k0)"
        text = "%s! { %s, ready(k1)%s }" % (outer, b0, handler)
        L.append("let mut f = %s;" % text)
        L.append("let r = poll_once(&mut f);")
        expect = "Poll::Ready(k0 ^ k1 ^ (%s))" % exp_inner if where == "handler" else "Poll::Ready((k0 ^ (%s), k1))" % exp_inner
    else:
        b0 = "ready(mk(true, k0)) |> %s" % f_res if f_res else "ready(mk(true, k0))"
        text = "%s! { %s, ready(mk(true, k1))%s }" % (outer, b0, handler)
        L.append("let mut f = %s;" % text)
        L.append("let r = poll_once(&mut f);")
        expect = "Poll::Ready(Ok(k0 ^ k1 ^ (%s)))" % exp_inner if where == "handler" else "Poll::Ready(Ok((k0 ^ (%s), k1)))" % exp_inner
    L.append("vassert!(r == %s, \"C17[%s]: %s! nested in a %s of %s! keeps the meaning of both\");" % (expect, pid, inner, where, outer))
    L.append("vcover!(true, \"end reached\");")
    desc = dict(outer=outer, inner=inner, where=where, third=third)
    w = 1 + 2 * (KINDS[outer][0] + KINDS[inner][0]) + (3 if third else 0)
    return Program(pid, text, "    " + "\n    ".join(L), desc=desc, group="nest/" + where, role=dict(kind=outer), unwind=12, weight=w)


def shadow(pid, macro):
    """user identifiers spelled like the macro's internal ones, inside closures"""
    L = ["let x = u(); let y = u();"]
    if KINDS[macro][1]:
        text = ("%s! { mo(true, x) |> |__v: u8| __v ^ 1 => |__r0: u8| { let __rs = __r0; let __sr0 = __rs ^ 2; mo(true, __sr0) } ~|> { let __ew0_0_0 = 4u8; move |__h: u8| __h ^ __ew0_0_0 }, "
                "mo(true, y) => >>> -> |__v: u8| mo(true, __v) <<< ~|> |__r1: u8| __r1 ^ 8, map => |__r1: u8, __r0: u8| (__r1, __r0) }" % macro)
        expect = "Some((x ^ 1 ^ 2 ^ 4, y ^ 8))"
    else:
        text = ("%s! { x -> |__v: u8| __v ^ 1 -> |__r0: u8| { let __rs = __r0; let __sr0 = __rs ^ 2; __sr0 } ~-> { let __ew0_0_0 = 4u8; move |__h: u8| __h ^ __ew0_0_0 }, "
                "mo(true, y) |> >>> -> |__v: u8| __v <<< ~-> |__r1: Option<u8>| __r1.unwrap_or(0) ^ 8, then => |__r1: u8, __r0: u8| (__r1, __r0) }" % macro)
        expect = "(x ^ 1 ^ 2 ^ 4, y ^ 8)"
    L.append("let r = %s;" % text)
    L.append("vassert!(r == %s, \"C17[%s]: user identifiers spelled like internal names inside closures do not interfere\");" % (expect, pid))
    L.append("vcover!(true, \"end reached\");")
    return Program(pid, text, "    " + "\n    ".join(L), desc=dict(macro=macro), group="shadow", role=dict(kind=macro), unwind=12, weight=1)


def programs(tier, seed):
    ps = []
    i = 0
    i += 1
    ps.append(wide("p%04d" % i, 12, 12, seed))
    if tier == "thorough":
        i += 1
        ps.append(wide("p%04d" % i, 24, 24, seed))
    i += 1
    ps.append(deep("p%04d" % i, 12, seed))
    i += 1
    ps.append(dense("p%04d" % i, 4, 4, seed) if tier == "quick" else dense("p%04d" % i, 6, 6, seed))
    r = rng(seed, "c17nest")
    for outer in NAMES:
        for inner in NAMES:
            for where in ("operand", "capture", "handler"):
                i += 1
                if tier == "quick" and (NAMES.index(outer) * 5 + NAMES.index(inner) * 3 + ("operand", "capture", "handler").index(where) + seed) % 6 != 0:
                    continue
                ps.append(nest("p%04d" % i, outer, inner, where, seed))
    for k in range(6 if tier == "quick" else 40):
        i += 1
        o_, n_, t_ = r.choice(NAMES), r.choice(NAMES), r.choice(NAMES)
        ps.append(nest("p%04d" % i, o_, n_, r.choice(["operand", "capture", "handler"]), seed, third=t_))
    for macro in ("join", "try_join"):
        i += 1
        ps.append(shadow("p%04d" % i, macro))
    for macro, nb in (("join_async", 1), ("try_join_async", 2)) if tier == "quick" else (("join_async", 1), ("try_join_async", 2), ("join_async", 2), ("try_join_async_spawn", 1)):
        i += 1
        ps.append(deep_async("p%04d" % i, macro, 12, nb))
    # thin-wide program (both tiers): 24 + 2 branches x 2 actions - branch indices beyond 16 (two-digit, hex-width and
    # modulo clashes between the per-branch names) at a cost the quick tier can afford
    i += 1
    p = wide("p%04d" % i, 24, 2, seed)
    p.heavy = False
    ps.append(p)
    return ps


def generate(tier, seed):
    return pack("c17", programs(tier, seed), 8)


META = dict(
    level="translation_validation",
    rule="programs: one 12 x 12 (thorough also 24 x 24) and one thin 24 x 2 wide program with block captures at textually colliding (branch, position) pairs and block fold operands; one 12-step program; every ordered pair "
         "of the 12 macro names x {operand, block capture, handler} (quick: one sixth, seed-rotated) and seed-sampled depth-3 triples; two programs with user identifiers spelled like internal names. "
         "Each compared with its closed form for ALL symbolic scalars; packed 8 per query; disagreements_checked = programs discharged",
    functions_encoded=["name constructors (__v, __sr{n}, __r{n}, __j{n}, __ew{b}_{pos}_{op}, __h, __rs, __inspect, __tb, __spawn_tokio) as used by the expansions of all 12 names; self-contained block / async block per expansion"],
    bounds=["24 branches x 24 actions, 12 steps, nesting depth 3", "async macros nested in sync code are driven by one poll over ready futures"],
    outside=["user `let` names that equal an internal name of another branch (a genuine clash by construction)", "more than 24 x 24"],
    assumptions=["thread and tokio models of DESIGN.md 2.2"],
)
