#!/bin/bash
# Development aid: run quick checks against a scratch worktree that carries a seeded change.
#   ./seedtest.sh <worktree> <id> [<id> ...]        (evidence and replay files go to /tmp/jv-seed/, work and target dirs to /var/tmp/join-verif-seed)
wt=$1; shift
tag=$(basename $wt)
cd "$(dirname "$0")"
for id in "$@"; do
  JV_WORK=${JV_WORK:-/var/tmp/join-verif-seed} JOIN_REPO=$wt JV_EVIDENCE_DIR=/tmp/jv-seed/$tag/evidence JV_REPLAY_DIR=/tmp/jv-seed/$tag/replays ./check $id --tier ${TIER:-quick} > /tmp/jv-seed-$tag-$id.log 2>&1
  echo "$id rc=$? $(grep -m1 '^\[' /tmp/jv-seed-$tag-$id.log | cut -c1-170)"
  grep -m3 -A2 '^VIOLATION' /tmp/jv-seed-$tag-$id.log | cut -c1-400
done
