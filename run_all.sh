#!/bin/bash
# Runs every registered check of one tier in sequence (development aid): ./run_all.sh [quick|thorough] [seed]
cd "$(dirname "$0")"
tier=${1:-quick}; seed=${2:-0}
rc_all=0
for id in $(python3 -c "import json; print(' '.join(c['property_id'] for c in json.load(open('MANIFEST.json'))['checks']))"); do
  s=$(date +%s)
  VERIF_SEED=$seed ./check $id --tier $tier > /tmp/jv-$id-$tier.log 2>&1; rc=$?
  e=$(( $(date +%s) - s ))
  echo "$id rc=$rc ${e}s  $(grep -m1 '^\[' /tmp/jv-$id-$tier.log)"
  [ $rc -ne 0 ] && rc_all=1
done
exit $rc_all
